//! C20: HyperLogLog serde. The real `Deserialize` impl is driven by a harness
//! `Deserializer`/`MapAccess` over a symbolic document (fields in any order, with
//! omissions and duplicates, arbitrary `b`, arbitrary register vector); the real
//! `Serialize` impl is driven by a capturing `Serializer`.
use crate::models::*;
use crate::vsrc::*;
use pdatastructs::hyperloglog::HyperLogLog;
use serde::de::value::{SeqDeserializer, StrDeserializer, U64Deserializer, UnitDeserializer};
use serde::de::{self, Deserialize, DeserializeSeed, Deserializer, MapAccess, Visitor};
use serde::ser::{self, Serialize, SerializeSeq, SerializeStruct, Serializer};

type H = HyperLogLog<H64, IdBH>;

/// Error type whose `custom()` discards the message (serde's own value::Error formats it,
/// which drags unicode tables into the symbolic execution).
#[derive(Debug)]
pub struct VErr;
impl std::fmt::Display for VErr {
    fn fmt(&self, f: &mut std::fmt::Formatter<'_>) -> std::fmt::Result {
        f.write_str("e")
    }
}
impl std::error::Error for VErr {}
impl de::Error for VErr {
    fn custom<T: std::fmt::Display>(_m: T) -> Self {
        VErr
    }
}
impl ser::Error for VErr {
    fn custom<T: std::fmt::Display>(_m: T) -> Self {
        VErr
    }
}

impl<'de> Deserialize<'de> for IdBH {
    fn deserialize<D: Deserializer<'de>>(d: D) -> Result<Self, D::Error> {
        struct V;
        impl<'de> Visitor<'de> for V {
            type Value = IdBH;
            fn expecting(&self, f: &mut std::fmt::Formatter<'_>) -> std::fmt::Result {
                f.write_str("unit")
            }
            fn visit_unit<E: de::Error>(self) -> Result<IdBH, E> {
                Ok(IdBH)
            }
        }
        d.deserialize_unit(V)
    }
}
impl Serialize for IdBH {
    fn serialize<S: Serializer>(&self, s: S) -> Result<S::Ok, S::Error> {
        s.serialize_unit()
    }
}

/// A document: ordered list of up to 3 (field, value) entries.
pub struct Doc {
    pub order: [u8; 3],
    pub n: usize,
    pub b: u64,
    pub regs: Vec<u8>,
    pub pos: usize,
}
pub struct DocDe(pub Doc);
impl<'de> Deserializer<'de> for DocDe {
    type Error = VErr;
    fn deserialize_any<V: Visitor<'de>>(self, v: V) -> Result<V::Value, VErr> {
        v.visit_map(self.0)
    }
    serde::forward_to_deserialize_any! { bool i8 i16 i32 i64 i128 u8 u16 u32 u64 u128 f32 f64 char str string bytes byte_buf option unit unit_struct newtype_struct seq tuple tuple_struct map struct enum identifier ignored_any }
}
impl<'de> MapAccess<'de> for Doc {
    type Error = VErr;
    fn next_key_seed<K: DeserializeSeed<'de>>(&mut self, seed: K) -> Result<Option<K::Value>, VErr> {
        if self.pos >= self.n {
            return Ok(None);
        }
        let name = match self.order[self.pos] {
            0 => "registers",
            1 => "b",
            _ => "buildhasher",
        };
        seed.deserialize(StrDeserializer::<VErr>::new(name)).map(Some)
    }
    fn next_value_seed<S: DeserializeSeed<'de>>(&mut self, seed: S) -> Result<S::Value, VErr> {
        let k = self.order[self.pos];
        self.pos += 1;
        match k {
            0 => seed.deserialize(SeqDeserializer::<_, VErr>::new(std::mem::take(&mut self.regs).into_iter())),
            1 => seed.deserialize(U64Deserializer::<VErr>::new(self.b)),
            _ => seed.deserialize(UnitDeserializer::<VErr>::new()),
        }
    }
}

/// Document with a concrete shape (field order / omissions / duplicates, register count) and symbolic
/// contents (`b` any u64, every register any u8).
fn doc(order: [u8; 3], n: usize, len: usize) -> Doc {
    let mut regs = Vec::with_capacity(len);
    for _ in 0..len {
        regs.push(any_u8());
    }
    Doc { order, n, b: any_u64(), regs, pos: 0 }
}

/// Deserialising any structurally valid document gives Err or a sketch satisfying the
/// constructor's invariants, on which add/merge do not panic; valid documents are accepted.
fn deser_invariant(order: [u8; 3], n: usize, len: usize) -> (bool, u64) {
    let d = doc(order, n, len);
    let b = d.b;
    let r: Result<H, VErr> = H::deserialize(DocDe(d));
    let complete = n == 3 && order[0] != order[1] && order[0] != order[2] && order[1] != order[2];
    match r {
        Ok(mut h) => {
            chk!("deserialized_b_in_range", h.b() >= 4 && h.b() <= 18);
            chk!("deserialized_len_is_2_pow_b", h.b() < 64 && h.m() == 1usize << h.b());
            chk!("deserialized_only_complete_documents", complete);
            chk!("deserialized_fields_as_given", h.b() as u64 == b && h.registers().len() == len);
            let x = any_u64();
            h.add_hashed(x);
            let c = h.clone();
            h.merge(&c);
            chk!("deserialized_usable", h.registers().len() == len);
        }
        Err(_) => {
            let valid = complete && b >= 4 && b <= 18 && (len as u64) == (1u64 << b);
            chk!("valid_documents_are_accepted", !valid);
        }
    }
    (complete, b)
}

macro_rules! serde_cfg {
    ($name:ident, $u:literal, [$a:literal, $b:literal, $c:literal], $n:literal, $len:literal, accept $acc:literal) => {
        harness!($name, unwind $u, {
            let (complete, b) = deser_invariant([$a, $b, $c], $n, $len);
            if $acc {
                cov!("accepted", complete && (1u64 << (b & 31)) == $len as u64 && b >= 4 && b <= 18);
                cov!("rejected_b_mismatch", complete && b != 4 && b != 5);
            } else {
                cov!("rejected", b == 4);
            }
        });
    };
}
// complete documents, registers first / last, lengths around 16 and the degenerate ones
serde_cfg!(serde_deser_rbh_len16, 19, [0, 1, 2], 3, 16, accept true);
serde_cfg!(serde_deser_hbr_len16, 19, [2, 1, 0], 3, 16, accept true);
serde_cfg!(serde_deser_rbh_len0, 13, [0, 1, 2], 3, 0, accept false);
serde_cfg!(serde_deser_rbh_len1, 13, [0, 1, 2], 3, 1, accept false);
serde_cfg!(serde_deser_rbh_len15, 18, [0, 1, 2], 3, 15, accept false);
serde_cfg!(serde_deser_rbh_len17, 20, [0, 1, 2], 3, 17, accept false);
serde_cfg!(serde_deser_bhr_len17, 20, [1, 2, 0], 3, 17, accept false);
// the other field orders
serde_cfg!(serde_deser_rhb_len16, 19, [0, 2, 1], 3, 16, accept true);
serde_cfg!(serde_deser_brh_len16, 19, [1, 0, 2], 3, 16, accept true);
serde_cfg!(serde_deser_bhr_len16, 19, [1, 2, 0], 3, 16, accept true);
serde_cfg!(serde_deser_hrb_len16, 19, [2, 0, 1], 3, 16, accept true);
// omissions, duplicates, empty
serde_cfg!(serde_deser_missing_bh, 19, [0, 1, 2], 2, 16, accept false);
serde_cfg!(serde_deser_missing_b, 19, [0, 2, 1], 2, 16, accept false);
serde_cfg!(serde_deser_missing_regs, 19, [1, 2, 0], 2, 16, accept false);
serde_cfg!(serde_deser_dup_regs, 19, [0, 0, 1], 3, 16, accept false);
serde_cfg!(serde_deser_dup_b, 19, [0, 1, 1], 3, 16, accept false);
serde_cfg!(serde_deser_dup_bh, 19, [2, 2, 0], 3, 16, accept false);
serde_cfg!(serde_deser_empty, 19, [0, 1, 2], 0, 16, accept false);
// 32 registers
serde_cfg!(serde_deser_rbh_len32, 35, [0, 1, 2], 3, 32, accept true);
serde_cfg!(serde_deser_rbh_len31, 34, [0, 1, 2], 3, 31, accept false);
serde_cfg!(serde_deser_rbh_len33, 36, [0, 1, 2], 3, 33, accept false);

// ---------------------------------------------------------------- capturing serializer
#[derive(Default)]
pub struct Captured {
    pub regs: Vec<u8>,
    pub b: u64,
    pub fields: u8, // bit 0 registers, bit 1 b, bit 2 buildhasher
    pub name_ok: bool,
    /// record only HOW MANY registers are written (for precisions whose 2^b registers cannot be walked symbolically)
    pub len_only: bool,
    pub seq_len: usize,
}
pub struct Cap<'a>(pub &'a mut Captured);
pub struct CapStruct<'a>(&'a mut Captured);
pub struct CapSeq<'a>(&'a mut Captured);
pub enum FieldSer<'a> {
    Regs(&'a mut Captured),
    B(&'a mut Captured),
    Bh(&'a mut Captured),
}

macro_rules! unsupported {
    ($($f:ident($($t:ty),*) -> $r:ty;)*) => {$(
        fn $f(self $(, _: $t)*) -> Result<$r, VErr> { Err(VErr) }
    )*};
}

impl<'a> Serializer for Cap<'a> {
    type Ok = ();
    type Error = VErr;
    type SerializeSeq = ser::Impossible<(), VErr>;
    type SerializeTuple = ser::Impossible<(), VErr>;
    type SerializeTupleStruct = ser::Impossible<(), VErr>;
    type SerializeTupleVariant = ser::Impossible<(), VErr>;
    type SerializeMap = ser::Impossible<(), VErr>;
    type SerializeStruct = CapStruct<'a>;
    type SerializeStructVariant = ser::Impossible<(), VErr>;
    fn serialize_struct(self, name: &'static str, len: usize) -> Result<CapStruct<'a>, VErr> {
        self.0.name_ok = name.len() == 11 && len == 3;
        Ok(CapStruct(self.0))
    }
    unsupported! {
        serialize_bool(bool) -> (); serialize_i8(i8) -> (); serialize_i16(i16) -> (); serialize_i32(i32) -> (); serialize_i64(i64) -> ();
        serialize_u8(u8) -> (); serialize_u16(u16) -> (); serialize_u32(u32) -> (); serialize_u64(u64) -> (); serialize_f32(f32) -> (); serialize_f64(f64) -> ();
        serialize_char(char) -> (); serialize_str(&str) -> (); serialize_bytes(&[u8]) -> (); serialize_none() -> (); serialize_unit() -> ();
        serialize_unit_struct(&'static str) -> (); serialize_unit_variant(&'static str, u32, &'static str) -> ();
        serialize_seq(Option<usize>) -> Self::SerializeSeq; serialize_tuple(usize) -> Self::SerializeTuple;
        serialize_tuple_struct(&'static str, usize) -> Self::SerializeTupleStruct;
        serialize_tuple_variant(&'static str, u32, &'static str, usize) -> Self::SerializeTupleVariant;
        serialize_map(Option<usize>) -> Self::SerializeMap;
        serialize_struct_variant(&'static str, u32, &'static str, usize) -> Self::SerializeStructVariant;
    }
    fn serialize_some<T: ?Sized + Serialize>(self, _: &T) -> Result<(), VErr> {
        Err(VErr)
    }
    fn serialize_newtype_struct<T: ?Sized + Serialize>(self, _: &'static str, _: &T) -> Result<(), VErr> {
        Err(VErr)
    }
    fn serialize_newtype_variant<T: ?Sized + Serialize>(self, _: &'static str, _: u32, _: &'static str, _: &T) -> Result<(), VErr> {
        Err(VErr)
    }
}

impl<'a> SerializeStruct for CapStruct<'a> {
    type Ok = ();
    type Error = VErr;
    fn serialize_field<T: ?Sized + Serialize>(&mut self, key: &'static str, value: &T) -> Result<(), VErr> {
        // field names distinguished by length: registers(9) b(1) buildhasher(11)
        match key.len() {
            9 => {
                self.0.fields |= 1;
                value.serialize(FieldSer::Regs(self.0))
            }
            1 => {
                self.0.fields |= 2;
                value.serialize(FieldSer::B(self.0))
            }
            11 => {
                self.0.fields |= 4;
                value.serialize(FieldSer::Bh(self.0))
            }
            _ => Err(VErr),
        }
    }
    fn end(self) -> Result<(), VErr> {
        Ok(())
    }
}

impl<'a> SerializeSeq for CapSeq<'a> {
    type Ok = ();
    type Error = VErr;
    fn serialize_element<T: ?Sized + Serialize>(&mut self, value: &T) -> Result<(), VErr> {
        value.serialize(FieldSer::Regs(self.0))
    }
    fn end(self) -> Result<(), VErr> {
        Ok(())
    }
}

impl<'a> Serializer for FieldSer<'a> {
    type Ok = ();
    type Error = VErr;
    type SerializeSeq = CapSeq<'a>;
    type SerializeTuple = ser::Impossible<(), VErr>;
    type SerializeTupleStruct = ser::Impossible<(), VErr>;
    type SerializeTupleVariant = ser::Impossible<(), VErr>;
    type SerializeMap = ser::Impossible<(), VErr>;
    type SerializeStruct = ser::Impossible<(), VErr>;
    type SerializeStructVariant = ser::Impossible<(), VErr>;
    fn serialize_seq(self, _len: Option<usize>) -> Result<CapSeq<'a>, VErr> {
        match self {
            FieldSer::Regs(c) => Ok(CapSeq(c)),
            _ => Err(VErr),
        }
    }
    fn collect_seq<I>(self, iter: I) -> Result<(), VErr>
    where
        I: IntoIterator,
        <I as IntoIterator>::Item: Serialize,
    {
        let it = iter.into_iter();
        match self {
            FieldSer::Regs(c) if c.len_only => {
                // a slice iterator reports its exact length
                let (lo, hi) = it.size_hint();
                if hi != Some(lo) {
                    return Err(VErr);
                }
                c.seq_len = lo;
                Ok(())
            }
            other => {
                let mut seq = other.serialize_seq(None)?;
                for x in it {
                    seq.serialize_element(&x)?;
                }
                SerializeSeq::end(seq)
            }
        }
    }
    fn serialize_u8(self, v: u8) -> Result<(), VErr> {
        match self {
            FieldSer::Regs(c) => {
                c.regs.push(v);
                Ok(())
            }
            _ => Err(VErr),
        }
    }
    fn serialize_u64(self, v: u64) -> Result<(), VErr> {
        match self {
            FieldSer::B(c) => {
                c.b = v;
                Ok(())
            }
            _ => Err(VErr),
        }
    }
    fn serialize_unit(self) -> Result<(), VErr> {
        match self {
            FieldSer::Bh(_) => Ok(()),
            _ => Err(VErr),
        }
    }
    unsupported! {
        serialize_bool(bool) -> (); serialize_i8(i8) -> (); serialize_i16(i16) -> (); serialize_i32(i32) -> (); serialize_i64(i64) -> ();
        serialize_u16(u16) -> (); serialize_u32(u32) -> (); serialize_f32(f32) -> (); serialize_f64(f64) -> ();
        serialize_char(char) -> (); serialize_str(&str) -> (); serialize_bytes(&[u8]) -> (); serialize_none() -> ();
        serialize_unit_struct(&'static str) -> (); serialize_unit_variant(&'static str, u32, &'static str) -> ();
        serialize_tuple(usize) -> Self::SerializeTuple;
        serialize_tuple_struct(&'static str, usize) -> Self::SerializeTupleStruct;
        serialize_tuple_variant(&'static str, u32, &'static str, usize) -> Self::SerializeTupleVariant;
        serialize_map(Option<usize>) -> Self::SerializeMap;
        serialize_struct(&'static str, usize) -> Self::SerializeStruct;
        serialize_struct_variant(&'static str, u32, &'static str, usize) -> Self::SerializeStructVariant;
    }
    fn serialize_some<T: ?Sized + Serialize>(self, _: &T) -> Result<(), VErr> {
        Err(VErr)
    }
    fn serialize_newtype_struct<T: ?Sized + Serialize>(self, _: &'static str, _: &T) -> Result<(), VErr> {
        Err(VErr)
    }
    fn serialize_newtype_variant<T: ?Sized + Serialize>(self, _: &'static str, _: u32, _: &'static str, _: &T) -> Result<(), VErr> {
        Err(VErr)
    }
}

/// Round trip of an arbitrary valid b=4 sketch.
harness!(serde_roundtrip_b4, unwind 19, {
    let mut regs = Vec::with_capacity(16);
    for _ in 0..16 {
        regs.push(any_u8());
    }
    let h = H::with_registers_and_hash(4, regs, IdBH);
    let mut cap = Captured::default();
    cap.regs = Vec::with_capacity(16);
    let sr = h.serialize(Cap(&mut cap));
    chk!("serialize_ok", sr.is_ok());
    chk!("serialize_three_fields", cap.fields == 7 && cap.name_ok);
    chk!("serialize_b", cap.b == 4);
    chk!("serialize_registers_len", cap.regs.len() == 16);
    let doc = Doc { order: [0, 1, 2], n: 3, b: cap.b, regs: cap.regs, pos: 0 };
    let r: Result<H, VErr> = H::deserialize(DocDe(doc));
    chk!("roundtrip_accepts", r.is_ok());
    if let Ok(mut g) = r {
        let k = any_usize();
        asm!(k < 16);
        chk!("roundtrip_registers", g.registers()[k] == h.registers()[k]);
        chk!("roundtrip_equal", g == h);
        let mut h2 = h.clone();
        let x = any_u64();
        g.add_hashed(x);
        h2.add_hashed(x);
        chk!("roundtrip_same_reaction_to_add", g.registers()[k] == h2.registers()[k]);
    }
});


/// Serialize side for EVERY precision: the three fields are written, `b` is the sketch's precision and all 2^b registers are
/// handed to the serializer (their number is recorded, the contents are not walked). Together with the engine-M unit that
/// decides the validation of `visit_map` for every (b, register count), this is the round trip's acceptance for b up to 18.
harness!(serde_ser_fields_all_b, unwind 3, {
    let b = any_usize();
    asm!(b >= 4 && b <= 18);
    let h = H::with_hash(b, IdBH);
    let mut cap = Captured::default();
    cap.len_only = true;
    let sr = h.serialize(Cap(&mut cap));
    chk!("serialize_ok", sr.is_ok());
    chk!("serialize_three_fields", cap.fields == 7 && cap.name_ok);
    chk!("serialize_b_is_precision", cap.b == b as u64);
    chk!("serialize_all_registers", cap.seq_len == 1usize << b);
    cov!("b18", b == 18);
    cov!("b4", b == 4);
});
