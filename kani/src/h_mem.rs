//! C11: allocation arithmetic of the packed tables (cuckoo, quotient filter) for
//! symbolic configurations, and sizes of the other structures.
use crate::models::*;
use crate::vsrc::*;
use pdatastructs::countminsketch::CountMinSketch;
use pdatastructs::filters::bloomfilter::BloomFilter;
use pdatastructs::filters::cuckoofilter::CuckooFilter;
use pdatastructs::filters::quotientfilter::QuotientFilter;
use pdatastructs::hyperloglog::HyperLogLog;

harness!(mem_cuckoo_alloc, unwind 3, {
    let l = any_usize();
    asm!(l >= 2 && l <= 64);
    let bs = any_usize();
    asm!(bs >= 2 && bs <= 8);
    let sh = any_u8();
    asm!(sh >= 1 && sh <= 7);
    let nb = 1usize << sh;
    let f = CuckooFilter::<Elem, SymRng, CkBH>::with_params_and_hash(SymRng, bs, nb, l, CkBH { tab: 0 });
    let slots = bs * nb;
    let blocks = f.verif_table_blocks();
    chk!("table_holds_all_slots", f.verif_table_len() >= slots && blocks * 64 >= slots * l);
    chk!("at_most_one_spare_block", blocks * 64 < slots * l + 64);
    chk!("cfg_kept", f.bucketsize() == bs && f.n_buckets() == nb && f.l_fingerprint() == l);
    cov!("l2", l == 2 && slots == 1024);
    cov!("l64", l == 64);
    cov!("l33", l == 33);
});

harness!(mem_qf_alloc, unwind 11, {
    let bq = any_usize();
    asm!(bq >= 1 && bq <= 10);
    let br = any_usize();
    asm!(br >= 1 && br <= 64 && br + bq <= 64);
    let f = QuotientFilter::<H64, IdBH>::with_params_and_hash(bq, br, IdBH);
    let slots = 1usize << bq;
    let blocks = f.verif_table_blocks();
    chk!("table_holds_all_slots", f.verif_table_len() >= slots && blocks * 64 >= slots * br);
    chk!("at_most_one_spare_block", blocks * 64 < slots * br + 64);
    chk!("cfg_kept", f.bits_quotient() == bq && f.bits_remainder() == br);
    cov!("r1", br == 1 && bq == 10);
    cov!("r54", br == 54);
});

harness!(mem_other_sizes, unwind 35, {
    // Bloom: ceil(m/64) usize blocks (+ at most one for the 128-bit SIMD word)
    let m = any_usize();
    asm!(m >= 1 && m <= 4096);
    let bf = BloomFilter::<Elem, IterBH>::with_params_and_hash(m, 1, IterBH { salt: 0 });
    let words = bf.verif_bits().as_slice().len();
    chk!("bloom_words", words * 64 >= m && words * 64 < m + 128);
    chk!("bloom_m", bf.m() == m);
    // CMS: exactly w*d counters
    let w = any_usize();
    let d = any_usize();
    asm!(w >= 1 && w <= 64 && d >= 1 && d <= 8);
    let c = CountMinSketch::<Elem, u32, IterBH>::with_params_and_hasher(w, d, IterBH { salt: 0 });
    chk!("cms_len", c.verif_table().len() == w * d && c.verif_table().capacity() == w * d);
    // HLL: exactly 2^b registers
    let b = any_usize();
    asm!(b >= 4 && b <= 10);
    let h = HyperLogLog::<H64, IdBH>::with_hash(b, IdBH);
    chk!("hll_len", h.registers().len() == 1usize << b && h.m() == 1usize << b);
});

/// clear() must not change the amount of memory: the table of a cleared filter has the block count of a fresh one,
/// for every fingerprint / remainder width.
harness!(mem_cuckoo_clear, unwind 35, {
    use pdatastructs::filters::Filter;
    // widths on both sides of the block size and ones that do not divide it (a symbolic width makes the bit packing
    // of with_fill needlessly expensive; the constructor's arithmetic is decided for every width by mem_cuckoo_alloc)
    let l = match any_u8() % 6 {
        0 => 2usize,
        1 => 3,
        2 => 16,
        3 => 31,
        4 => 33,
        _ => 64,
    };
    let mut f = CuckooFilter::<Elem, SymRng, CkBH>::with_params_and_hash(SymRng, 2, 2, l, CkBH { tab: 0 });
    let blocks0 = f.verif_table_blocks();
    let len0 = f.verif_table_len();
    f.clear();
    chk!("clear_keeps_block_count", f.verif_table_blocks() == blocks0);
    chk!("clear_keeps_table_len", f.verif_table_len() == len0);
    chk!("cleared_table_within_one_spare_block", f.verif_table_blocks() * 64 < 4 * l + 64);
    f.clear();
    chk!("clear_twice_keeps_block_count", f.verif_table_blocks() == blocks0);
    cov!("l2", l == 2);
    cov!("l64", l == 64);
    cov!("l33", l == 33);
});

harness!(mem_qf_clear, unwind 35, {
    use pdatastructs::filters::Filter;
    let br = match any_u8() % 5 {
        0 => 2usize,
        1 => 3,
        2 => 16,
        3 => 33,
        _ => 62,
    };
    let mut f = QuotientFilter::<H64, IdBH>::with_params_and_hash(2, br, IdBH);
    let blocks0 = f.verif_table_blocks();
    let len0 = f.verif_table_len();
    f.clear();
    chk!("clear_keeps_block_count", f.verif_table_blocks() == blocks0);
    chk!("clear_keeps_table_len", f.verif_table_len() == len0);
    chk!("cleared_table_within_one_spare_block", f.verif_table_blocks() * 64 < 4 * br + 64);
    f.clear();
    chk!("clear_twice_keeps_block_count", f.verif_table_blocks() == blocks0);
    cov!("r2", br == 2);
    cov!("r62", br == 62);
});
