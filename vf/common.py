"""Shared paths and helpers."""
import json, os, subprocess, sys, time

VERIF = os.path.dirname(os.path.dirname(os.path.abspath(__file__)))
REPO = os.environ.get("VERIF_REPO", "/repo")
CACHE = os.path.join(VERIF, ".cache")
KANI_CRATE_SRC = os.path.join(VERIF, "kani")
# VERIF_REPO=<dir> (default /repo) lets a run use a snapshot of the repository (e.g. $VP_RUN_REPO under `vp run --with-repo`)
# instead of /repo itself: the harness crate is then mirrored into the cache with its path dependency rewritten.
if os.path.realpath(REPO) == "/repo":
    KANI_CRATE = KANI_CRATE_SRC
    CACHE_TAG = ""
else:
    import hashlib
    CACHE_TAG = "-" + hashlib.sha1(os.path.realpath(REPO).encode()).hexdigest()[:8]
    KANI_CRATE = os.path.join(CACHE, "kani-mirror" + CACHE_TAG)
EVIDENCE = os.path.join(VERIF, "evidence")
_EVIDENCE_ALT = os.path.join(VERIF, ".cache", "evidence-snapshot-runs")
REPLAYS = os.path.join(VERIF, "replays")
NCPU = os.cpu_count() or 8

ENV = dict(os.environ)
ENV["CARGO_NET_OFFLINE"] = "true"
ENV.setdefault("CARGO_TERM_COLOR", "never")


def log(*a):
    print(*a, file=sys.stderr, flush=True)


def sh(cmd, cwd=None, timeout=None, env=None, mem_gb=None):
    """Run a command, return (rc, stdout+stderr, seconds). rc=-9 on timeout."""
    t0 = time.time()
    pre = None
    if mem_gb:
        import resource

        def pre():
            lim = int(mem_gb * (1 << 30))
            resource.setrlimit(resource.RLIMIT_AS, (lim, lim))
            os.setsid()
    else:
        pre = os.setsid
    p = subprocess.Popen(cmd, cwd=cwd, env=env or ENV, stdout=subprocess.PIPE, stderr=subprocess.STDOUT,
                         preexec_fn=pre, text=True, errors="replace")
    try:
        out, _ = p.communicate(timeout=timeout)
        return p.returncode, out, time.time() - t0
    except subprocess.TimeoutExpired:
        import signal
        try:
            os.killpg(p.pid, signal.SIGKILL)
        except ProcessLookupError:
            pass
        out, _ = p.communicate()
        return -9, out, time.time() - t0


def load_known():
    p = os.path.join(VERIF, "known_findings.json")
    if not os.path.exists(p):
        return []
    return json.load(open(p)).get("findings", [])

if CACHE_TAG:
    # runs against a snapshot never touch the registered evidence files
    EVIDENCE = _EVIDENCE_ALT
    REPLAYS = os.path.join(CACHE, "replays-snapshot-runs")
