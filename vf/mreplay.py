"""Native replay of engine-M counterexamples for LossyCounter / CMSHeap / QF / kernels:
build the pre-state natively through the verif hooks, run the real operation, re-evaluate the violated clause."""
import json, math, os
from .common import *
from . import mrun

K3 = 3


def lossy_inv_A(known, T, n, width):
    bfloor, bceil = n // width, -(-n // width)
    tracked = {k: (f, d) for k, f, d in known}
    if sum(T) != n:
        return False
    for k in range(K3):
        if k in tracked:
            f, d = tracked[k]
            if not (f >= 1 and f <= T[k] <= f + d and d + 1 <= max(bceil, 1)):
                return False
        elif T[k] > bfloor:
            return False
    return True


def replay(pid, unit, cex, path):
    model = unit["model"]
    if model == "lossy":
        op = cex.get("op")
        if op == "add":
            txt = "\n".join(["# engine: M", "exec lossy", "width %d" % cex["width"], "n %d" % cex["n"], "op add", "y %d" % cex["y"],
                             "known " + ",".join("%d:%d:%d" % tuple(e) for e in cex["known"]), "# ghost_T %s" % cex["T"]]) + "\n"
            nat = mrun.native_exec(txt, path)
            if nat.get("error"):
                return [], path, nat
            bad = []
            y, T = cex["y"], list(cex["T"])
            was_tracked = any(k == y for k, _, _ in cex["known"])
            T2 = [t + (1 if k == y else 0) for k, t in enumerate(T)]
            if nat["result"] == "panic":
                bad.append("panic")
            else:
                if nat["n"] != cex["n"] + 1: bad.append("add_n_counts_calls")
                if nat["width"] != cex["width"]: bad.append("add_keeps_width_epsilon")
                if (nat["result"] == "true") != (not was_tracked): bad.append("add_returns_true_iff_untracked")
                if not lossy_inv_A([tuple(e) for e in nat["known"]], T2, nat["n"], nat["width"]): bad.append("add_preserves_frequency_invariant")
                if any(f + d <= nat["n"] // nat["width"] for _, f, d in nat["known"]): bad.append("add_keeps_table_pruned_for_size_bound")
            return bad, path, nat
        if op == "query":
            txt = "\n".join(["# engine: M", "exec lossy", "width %d" % cex["width"], "n %d" % cex["n"], "op query", "a64 %d" % cex["a64"],
                             "known " + ",".join("%d:%d:%d" % tuple(e) for e in cex["known"]), "# ghost_T %s" % cex["T"]]) + "\n"
            nat = mrun.native_exec(txt, path)
            if nat.get("error"):
                return [], path, nat
            bad = []
            n, w, a = cex["n"], cex["width"], cex["a64"]
            for k in range(K3):
                Tk = cex["T"][k]
                ret = k in nat["query"]
                if 64 * Tk >= a * n and Tk * w > n and not ret: bad.append("query_contains_every_frequent_element")
                if a * w >= 64 and 64 * w * Tk < (a * w - 64) * n and ret: bad.append("query_contains_no_gross_intruder")
            return bad, path, nat
        return [], path, {"error": "no native replay for lossy op %s" % op}
    if model == "heap":
        op = cex.get("op")
        if op == "add":
            txt = "\n".join(["# engine: M", "exec heap", "k %d" % cex["k"], "c %d" % cex["c"], "op add", "y %d" % cex["y"],
                             "map " + ",".join("%d:%d" % tuple(e) for e in cex["map"]), "tree " + ",".join("%d:%d" % tuple(e) for e in cex["tree"]),
                             "# ghost_T %s E %s" % (cex["T"], cex["E"])]) + "\n"
            nat = mrun.native_exec(txt, path)
            if nat.get("error"):
                return [], path, nat
            bad = []
            if nat["result"] == "panic":
                return ["panic"], path, nat
            T2 = [t + (1 if k == cex["y"] else 0) for k, t in enumerate(cex["T"])]
            mp = dict((k, v) for k, v in nat["map"])
            tr = dict((k, v) for k, v in nat["tree"])
            seen = [t != 0 for t in T2]
            ok = (mp == tr) and len(nat["tree"]) == len(tr) and all(seen[k] and T2[k] <= v <= T2[k] + cex["E"] for k, v in mp.items()) \
                and len(mp) == min(cex["k"], sum(seen))
            if ok and len(mp) == cex["k"]:
                for x in range(K3):
                    if seen[x] and x not in mp and any(T2[x] > v for v in mp.values()):
                        ok = False
            if not ok:
                bad.append("add_preserves_topk_invariant")
            return bad, path, nat
        if op == "clear":
            # clear() takes no input: any tracked state with a non-zero sketch cell shows whether everything is reset
            txt = "\n".join(["# engine: M", "exec heap", "k 2", "c 5", "op clear", "map 1:3,2:4", "tree 1:3,2:4"]) + "\n"
            nat = mrun.native_exec(txt, path)
            if nat.get("error"):
                return [], path, nat
            bad = []
            if nat.get("cms_cell", 0) != 0: bad.append("clear_clears_sketch")
            if nat["map"] or nat["tree"] or not nat.get("is_empty"): bad.append("clear_empties_map_and_tree")
            return bad, path, nat
        return [], path, {"error": "no native replay for heap op %s" % op}
    if model == "kernel" and cex.get("op") == "add_hashed":
        txt = "\n".join(["# engine: M", "exec hll", "b %d" % cex["b"], "h %d" % cex["h"], "old %d" % cex.get("old", 0)]) + "\n"
        nat = mrun.native_exec(txt, path)
        if nat.get("error"):
            return [], path, nat
        b, h = cex["b"], cex["h"]
        w = h >> b
        rank = (64 - b + 1) if w == 0 else (64 - b) - (w.bit_length() - 1) + 0
        if w != 0:
            rank = (64 - b) - w.bit_length() + 1
        bad = []
        if nat["result"] == "panic":
            return ["panic"], path, nat
        if nat["reg_j"] != max(cex.get("old", 0), rank): bad.append("register_is_max_of_old_and_rank")
        if not nat["others_unchanged"]: bad.append("other_registers_unchanged")
        if nat["len"] != (1 << b): bad.append("len_and_b_unchanged")
        return bad, path, nat
    if model == "serde":
        txt = "\n".join(["# engine: M", "exec serde", "doc " + ",".join(cex["doc"]), "b %d" % cex["b"], "len %d" % cex["len"]]) + "\n"
        nat = mrun.native_exec(txt, path)
        if nat.get("error"):
            return [], path, nat
        names = ["registers", "b", "buildhasher"]
        complete = sorted(cex["doc"]) == sorted(names) and len(cex["doc"]) == 3
        valid = complete and 4 <= cex["b"] <= 18 and cex["len"] == (1 << cex["b"])
        bad = []
        ok = nat["result"] == "ok"
        if complete:
            if ok and not valid: bad.append("accepted_implies_b_in_range_and_len_2_pow_b")
            if valid and not ok: bad.append("valid_document_is_accepted")
            if ok and (nat.get("b") != cex["b"] or nat.get("len") != cex["len"]): bad.append("accepted_fields_passed_through")
        elif ok:
            bad.append("incomplete_or_duplicate_document_rejected")
        return bad, path, nat
    if model == "qf":
        from mir2smt.m_qf import enc_py
        bq, br = cex["bq"], cex["br"]
        NQ, NR = 1 << bq, 1 << br
        L = ["# engine: M", "exec qf", "bq %d" % bq, "br %d" % br, "members " + ",".join("%d:%d" % tuple(e) for e in cex["members"]), "op " + cex["op"]]
        if cex["op"] == "insert":
            L.append("y %d:%d" % tuple(cex["y"]))
        else:
            L.append("other " + ",".join("%d:%d" % tuple(e) for e in cex["other"]))
        nat = mrun.native_exec("\n".join(L) + "\n", path)
        if nat.get("error"):
            return [], path, nat
        X = set(tuple(e) for e in cex["members"])
        bad = []
        if not nat.get("reach_ok"):
            return [], path, dict(nat, error="pre-state not reachable through the public API")
        if cex["op"] == "insert":
            y = tuple(cex["y"])
            present, full = y in X, len(X) == NQ
            exp_res = "ok_false" if present else ("err" if full else "ok_true")
            X2 = X if nat["result"] == "err" else X | {y}   # expected state relative to the ACTUAL outcome, as in the encoding
            if (nat["result"] == "err") != (exp_res == "err"): bad.append("insert_result_kind")
            if nat["result"] != exp_res and nat["result"] != "err" and exp_res != "err": bad.append("insert_true_iff_new_class")
        else:
            Y = set(tuple(e) for e in cex["other"])
            fits = len(X | Y) <= NQ
            X2 = (X | Y) if nat["result"] == "ok" else X
            if (nat["result"] == "ok") != fits: bad.append("union_ok_iff_fits")
            if not nat.get("other_unchanged", True): bad.append("union_other_unchanged")
        is_err = nat["result"] == "err"
        if nat["len"] != len(X2):
            bad.append(("insert_err_len_unchanged" if is_err else "len_is_number_of_classes") if cex["op"] == "insert" else ("union_err_len_unchanged" if is_err else "union_ok_len"))
        e = enc_py(X2, NQ, NR)
        ok = True
        for t in range(NQ):
            s_ = nat["slots"][t]
            if [bool(s_[0]), bool(s_[1]), bool(s_[2])] != e[t][:3]: ok = False
            if any(e[t][:3]) and s_[3] != e[t][3]: ok = False
        if not ok:
            bad.append(("insert_err_state_unchanged" if is_err else "post_state_is_canonical_encoding") if cex["op"] == "insert" else ("union_err_state_unchanged" if is_err else "union_ok_state_is_encoding_of_union"))
        return bad, path, nat
    return [], path, {"error": "no native replay for model %s" % model}


def cex_tag(unit):
    return unit.get("_tag", "")
