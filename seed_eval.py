#!/usr/bin/env python3
"""Confirm a seeded change (from /tmp/wt_<ID>/seeded_out) and run our checks against it.
usage: seed_eval.py <ID> [<name>] [--checks C01,C14] [--tier quick]
Steps (all in the scratch worktree, never committing to /repo):
  1. suite with change (lib+doc tests, demo excluded) must pass
  2. demo with change must fail; demo without change must pass
  3. apply patch to /repo, run ./check for the listed properties, undo."""
import json, os, shutil, subprocess, sys, time

def sh(cmd, cwd=None, timeout=3600):
    env = dict(os.environ, CARGO_NET_OFFLINE="true")
    p = subprocess.run(cmd, cwd=cwd, shell=isinstance(cmd, str), capture_output=True, text=True, timeout=timeout, env=env)
    return p.returncode, p.stdout + p.stderr

def main():
    pid = sys.argv[1]
    args = sys.argv[2:]
    name = args[0] if args and not args[0].startswith("--") else pid
    checks = [pid]
    tier = "quick"
    wt_override = None
    preview_log = None
    for i, a in enumerate(args):
        if a == "--checks": checks = args[i + 1].split(",")
        if a == "--tier": tier = args[i + 1]
        if a == "--wt": wt_override = args[i + 1]
        if a == "--preview-log": preview_log = args[i + 1]
    wt = wt_override or "/tmp/wt_%s" % name
    out = os.path.join("/verif/seeded", name)
    os.makedirs(out, exist_ok=True)
    for f in ("patch.diff", "seeded_demo.rs", "notes.md"):
        src = os.path.join(wt, "seeded_out", f)
        if os.path.exists(src):
            shutil.copyfile(src, os.path.join(out, f))
    patch = os.path.join(out, "patch.diff")
    ran = {}
    # normalise the worktree: clean src, demo in place
    sh("git checkout -- src && git stash list >/dev/null", cwd=wt)
    os.makedirs(os.path.join(wt, "tests"), exist_ok=True)
    shutil.copyfile(os.path.join(out, "seeded_demo.rs"), os.path.join(wt, "tests", "seeded_demo.rs"))
    rc, o = sh("cargo test --offline --test seeded_demo 2>&1 | tail -5", cwd=wt)
    ran["demo_without_change"] = "pass" if "test result: ok" in o else "FAIL"
    rc, o = sh("git apply %s" % patch, cwd=wt)
    if rc != 0:
        print("patch does not apply:", o); sys.exit(2)
    rc, o = sh("cargo test --offline --test seeded_demo 2>&1 | tail -8", cwd=wt)
    ran["demo_with_change"] = "fail" if ("test result: FAILED" in o or "error" in o) else "PASSES(!)"
    rc, o1 = sh("cargo test --offline --lib 2>&1 | grep 'test result'", cwd=wt)
    rc, o2 = sh("cargo test --offline --doc 2>&1 | grep 'test result'", cwd=wt)
    ran["suite_with_change"] = (o1.strip() + " | " + o2.strip())
    suite_ok = "213 passed; 0 failed" in o1 and "0 failed" in o2
    print(json.dumps(ran, indent=1))
    valid = ran["demo_without_change"] == "pass" and ran["demo_with_change"] == "fail" and suite_ok
    results = {}
    if valid and preview_log:
        o = open(preview_log).read()
        lines = [l for l in o.splitlines() if l.startswith(("VIOLATION", "KNOWN", "INCONCLUSIVE", checks[0] + " tier"))]
        results[checks[0]] = {"exit": 1 if any(l.startswith("VIOLATION") for l in lines) else 0, "lines": lines[:12],
                              "how": "VERIF_REPO=%s ./check %s (scratch worktree with the patch applied; /repo not touched)" % (wt, checks[0])}
        print(checks[0], "\n  " + "\n  ".join(lines[:12]))
    elif valid:
        rc, o = sh("git -C /repo status --short -- src")
        if o.strip():
            print("refusing: /repo has local changes"); sys.exit(2)
        rc, o = sh("git -C /repo apply %s" % patch)
        if rc != 0:
            print("patch does not apply to /repo:", o); sys.exit(2)
        try:
            for c in checks:
                t0 = time.time()
                rc, o = sh("./check %s --tier %s" % (c, tier), cwd="/verif", timeout=4 * 3600)
                lines = [l for l in o.splitlines() if l.startswith(("VIOLATION", "KNOWN", "INCONCLUSIVE", c + " tier"))]
                results[c] = {"exit": rc, "wall_s": round(time.time() - t0), "lines": lines[:12]}
                print(c, "exit", rc, "\n  " + "\n  ".join(lines[:12]))
        finally:
            sh("git -C /repo checkout -- .")
    meta = {"id": name, "property": pid, "confirmed": ran, "valid": valid, "checks_run": results, "tier": tier,
            "detected": any(r["exit"] == 1 for r in results.values()),
            "commands": ["cargo test --offline --test seeded_demo (without change, in scratch worktree)", "git apply patch.diff; cargo test --offline --test seeded_demo",
                         "cargo test --offline --lib; cargo test --offline --doc", "git -C /repo apply patch.diff; ./check <ID> --tier %s; git -C /repo checkout -- ." % tier]}
    mp = os.path.join(out, "meta.json")
    old = {}
    if os.path.exists(mp):
        try: old = json.load(open(mp))
        except Exception: old = {}
    old.update(meta)
    json.dump(old, open(mp, "w"), indent=1)
    print("valid" if valid else "INVALID", "detected" if meta["detected"] else "NOT DETECTED")

if __name__ == "__main__":
    main()
