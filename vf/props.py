"""Property -> units (solver-decided obligations)."""

PROPS = {}


def K(harness, tier="quick", what="", bounds="", **kw):
    d = {"engine": "K", "harness": harness, "tier": tier, "what": what, "bounds": bounds}
    d.update(kw)
    return d


def M(name, tier="quick", what="", bounds="", **kw):
    d = {"engine": "M", "name": name, "tier": tier, "what": what, "bounds": bounds}
    d.update(kw)
    return d


def prop(pid, **kw):
    PROPS[pid] = kw
    kw.setdefault("units", [])
    return kw


def select(pid, tier, seed):
    us = PROPS[pid]["units"]
    if tier == "thorough":
        return list(us)
    return [u for u in us if u["tier"] == "quick"]


COMMON_K_ASSUME = [
    "Kani 0.68 / CBMC 6.11 / CaDiCaL decide each harness over all values of its symbolic inputs within the stated sizes; unwinding assertions enabled",
    "hashers are harness models whose output words are symbolic (carried by the element); SipHash itself is not executed",
    "pre-states are built through `verif` feature hooks from symbolic raw contents constrained by the stated representation invariant",
    "CBMC 'NaN on ...' float checks are ignored (producing NaN is not a failure in Rust)",
]

BLOOM_CFGS = [("m7k3", "quick"), ("m1k1", "quick"), ("m64k2", "quick"), ("m130k2", "thorough")]
CMS_CFGS = [("w3d2_u8", "quick"), ("w2d3_u8", "quick"), ("w1d1_u8", "quick"), ("w2d3_u64", "thorough"), ("w3d2_u16", "thorough"),
            ("w2d3_u32", "thorough"), ("w3d2_usize", "thorough"), ("w3d2_u64", "thorough")]

# --------------------------------------------------------------------------- C02
p = prop("C02",
         functions=["CountMinSketch::{with_params_and_hasher,add,add_n,query_point,merge,clear,is_empty}", "HashIterBuilder::{new,iter_for,setup_f,h_i}", "HashIter::next"],
         bounds={"quick": "(w,d) in {(3,2),(2,3),(1,1)}, counter u8, all cell values, all hash residues (h1,h2,f symbolic bytes), one step from any valid state",
                 "thorough": "adds u16,u32,u64,usize counters at (3,2)/(2,3) with full-width symbolic cells"},
         outside=["tables larger than 3x2 / 2x3", "counter overflow (checked_add panics) is assumed away: N+n <= C::MAX", "hash words wider than 8 bits (only h mod w is consumed)"],
         assumptions=COMMON_K_ASSUME + ["inductive invariant: every row sums to the stream total N, query_point(x) >= true(x)"])
for cfg, tier in CMS_CFGS:
    p["units"] += [
        K("h_cms::cms_add_" + cfg, tier, "one add_n from an arbitrary valid table: return value == query_point, true<=est<=N, row-sum invariant", cfg),
        K("h_cms::cms_add1_" + cfg, tier, "add == add_n(1)", cfg),
        K("h_cms::cms_merge_" + cfg, tier, "merge of two arbitrary valid tables: cell-wise sum, bounds carried over", cfg),
        K("h_cms::cms_clear_clone_" + cfg, tier, "clear resets to the zero table (history restarts)", cfg),
    ]

# --------------------------------------------------------------------------- C17
p = prop("C17",
         functions=["HyperLogLog::{with_hash,with_registers_and_hash,add,add_hashed,registers,merge,clear,is_empty,b,m}"],
         bounds="b = 4 (16 registers, arbitrary u8 contents), full 64-bit symbolic hash values; one step from any register vector",
         outside=["precisions b = 5..18 in the Kani harnesses (engine M covers add_hashed for all b)", "count() accuracy (C03)"],
         assumptions=COMMON_K_ASSUME + ["every register vector of length 2^b is a valid state (with_registers_and_hash accepts it)"])
p["units"] += [
    K("h_hll::hll_add_hashed_b4", "quick", "add_hashed(h): only register h&15 changes, to max(old, rank(h)); rank by independent bit-scan spec"),
    K("h_hll::hll_add_is_add_hashed_b4", "quick", "add(x) == add_hashed(hash_one(x))"),
    K("h_hll::hll_order_idempotence_b4", "quick", "two arbitrary hashes: order and repetition do not matter"),
    K("h_hll::hll_reconstruct_b4", "quick", "with_registers_and_hash(b, registers().to_vec(), hasher) == original"),
]
# --------------------------------------------------------------------------- C18
p = prop("C18",
         functions=["ReservoirSampling::{new,add,reservoir,i,k,is_empty,clear}", "rand::Rng::gen_range (real sampler, wmul kernel stubbed)"],
         bounds="k in {1,2,3}; i symbolic in [0, 2^20]; skip_until arbitrary <= 2^22; every RNG word arbitrary; one add from any valid state; plus 5 adds through the API at k=2",
         outside=["k > 3", "i > 2^20 (i+g far from overflow below that)", "ln/floor float path uses CBMC's approximations (only no-panic and slot structure asserted on it)"],
         assumptions=COMMON_K_ASSUME + ["RNG: every next_u32/next_u64 word arbitrary; <usize as WideningMultiply>::wmul stubbed to return (j,0) with arbitrary j<range (kills rand's rejection loop)",
                                        "state invariant: len = min(i,k), ids distinct and < i, prefix order while i <= k"])
p["units"] += [
    K("h_reservoir::reservoir_step_k1", "quick", "one add from any valid state, k=1"),
    K("h_reservoir::reservoir_step_k2", "quick", "one add from any valid state, k=2"),
    K("h_reservoir::reservoir_step_k3", "quick", "one add from any valid state, k=3"),
    K("h_reservoir::reservoir_fill_k1_i0", "quick", "fill phase, k=1, i=0"),
    K("h_reservoir::reservoir_fill_k3_i0", "quick", "fill phase, k=3, i=0"),
    K("h_reservoir::reservoir_fill_k3_i1", "quick", "fill phase, k=3, i=1"),
    K("h_reservoir::reservoir_fill_k3_i2", "quick", "fill phase, k=3, i=2"),
    K("h_reservoir::reservoir_api_prefix_k2", "quick", "new + 5 adds through the public API: prefix in order until the (k+1)-th add"),
]

# --------------------------------------------------------------------------- C11
p = prop("C11",
         functions=["helpers::all_zero_intvector", "CuckooFilter::with_params_and_hash", "QuotientFilter::with_params_and_hash", "BloomFilter::with_params_and_hash",
                    "CountMinSketch::with_params_and_hasher", "HyperLogLog::with_hash"],
         bounds="cuckoo: l in [2,64], bucketsize in [2,8], n_buckets in {2..128}; QF: q in [1,10], r in [1,64-q]; Bloom m <= 4096; CMS w<=64,d<=8; HLL b<=10 (all symbolic)",
         outside=["TDigest centroid count O(delta) (float; same obstacle as C04)", "LossyCounter (exempt by the statement)"],
         assumptions=COMMON_K_ASSUME)
p["units"] += [
    K("h_mem::mem_cuckoo_alloc", "quick", "cuckoo table: blocks*64 in [slots*l, slots*l+64)"),
    K("h_mem::mem_qf_alloc", "quick", "QF remainder table: blocks*64 in [slots*r, slots*r+64)"),
    K("h_mem::mem_other_sizes", "quick", "Bloom words, CMS counters, HLL registers match the configuration"),
]

# --------------------------------------------------------------------------- C15
TD_ASSUME = COMMON_K_ASSUME + [
    "digests are built through TDigest::verif_from_parts from symbolic centroids: weights 1..4, integer means -8..8 (as f64) in non-decreasing order, min <= first mean, last mean <= max (every reachable digest satisfies this ordering invariant)",
    "tolerance 1e-9 on comparisons (arithmetic on these small integers is exact or off by a few ulps)",
    "dev profile: debug_assert!s of interpolate() are checked too",
]
p = prop("C15",
         functions=["TDigest::{quantile,cdf,min,max,count}", "TDigestInner::{quantile,cdf,interpolate,count,merge(early return)}"],
         bounds={"quick": "1 and 2 centroids, weights 1..4, means/min/max integers in -8..8, q on the 1/16 grid, x on the half-integer grid",
                 "thorough": "adds 3 centroids"},
         outside=["more than 3 centroids", "non-integer means / weights outside 1..4", "scale functions (read path does not use them)"],
         assumptions=TD_ASSUME)
for n, tier in (("n1", "quick"), ("n2", "quick"), ("n3", "thorough")):
    p["units"] += [
        K("h_tdigest::td_quantile_ends_" + n, tier, "quantile(0)=min, quantile(1)=max", n, mem_class_gb=6),
        K("h_tdigest::td_quantile_monotone_" + n, tier, "quantile monotone on the 1/16 grid, within [min,max], repeatable", n, mem_class_gb=6, timeout_s=1800),
        K("h_tdigest::td_cdf_shape_" + n, tier, "cdf monotone, in [0,1], 0 below min, 1 from max", n, mem_class_gb=6, timeout_s=1800),
        K("h_tdigest::td_roundtrip_" + n, tier, "|cdf(quantile(q)) - q| <= w_max/S (strictly increasing means)", n, mem_class_gb=6, timeout_s=1800),
    ]
p["units"] += [K("h_tdigest::td_empty_reads", "quick", "empty digest: NaN / 0")]
# --------------------------------------------------------------------------- C16
p = prop("C16",
         functions=["TDigest::{insert,insert_weighted,count,sum,mean,min,max,is_empty,n_centroids}", "TDigestInner::{insert_weighted,merge}", "Centroid::{fuse,mean}", "K0::{f,f_inv}"],
         bounds="states with <=2 centroids + <=2 backlog entries (hook-built), weights 0..4, integer values -8..8; K0 with delta 1.1 (total fusion) and 1000 (none); backlog sizes 0 and 10",
         outside=["merges of more than 3 inputs (ran out of memory at design time)", "K1 (asin: FFI), K2/K3 (ln/exp) scale functions in merge", "floating-point accumulation error on non-integer data"],
         assumptions=TD_ASSUME + ["aggregates are observed as raw totals over centroids+backlog through verif hooks, and through count()/sum()/mean() after the merge"])
p["units"] += [
    K("h_tdigest::td_insert_step_c0b0", "quick", "insert_weighted into the empty digest"),
    K("h_tdigest::td_insert_step_c2b1", "quick", "insert_weighted, 2 centroids + 1 backlog"),
    K("h_tdigest::td_insert_step_c1b2", "quick", "insert_weighted, 1 centroid + 2 backlog"),
    K("h_tdigest::td_merge_step_c1b1_fuse", "quick", "merge 1+1, delta=1.1", mem_class_gb=8, timeout_s=1800),
    K("h_tdigest::td_merge_step_c1b1_keep", "quick", "merge 1+1, delta=1000", mem_class_gb=8, timeout_s=1800),
    K("h_tdigest::td_insert_merges_backlog0", "quick", "max_backlog_size=0: insert merges immediately", mem_class_gb=8, timeout_s=1800),
    K("h_tdigest::td_merge_step_c2b1_keep", "thorough", "merge 2+1, delta=1000", mem_class_gb=20, timeout_s=5400, mem_gb=40),
    K("h_tdigest::td_merge_step_c1b2_fuse", "thorough", "merge 1+2, delta=1.1", mem_class_gb=20, timeout_s=5400, mem_gb=40),
]

# --------------------------------------------------------------------------- C14
M_ASSUME = [
    "engine M: own symbolic interpreter over rustc's MIR dump (dev profile, overflow checks on) of /repo's current tree; z3 decides every path query; "
    "every arithmetic-overflow / index / unwrap panic path must be infeasible",
    "container contracts (trusted, validated natively on every run against the real crate): IntVector<u64> = array with range-checked get/set; Range/Vec/slice iterators = finite sequences; "
    "Rng::gen::<bool> / gen_range = fresh symbolic outcomes; CuckooFilter::hash(&fingerprint) = uninterpreted function into [0,n_buckets); start(x) = (f, i1, i1^h(f))",
    "MAX_NUM_KICKS (named constant in the MIR) is replaced by the stated eviction bound",
    "pre-state: arbitrary slot contents with n_elements = number of non-zero slots (every such table is reachable: an element with fingerprint g and bucket i produces slot value g in bucket i)",
    "every SMT counterexample is re-executed natively (real crate, l_fingerprint=64, scripted RNG, table-driven hasher) and reported only if the violated clause also fails there",
]
p = prop("C14", engine="mir2smt+kani",
         technique="symbolic execution of the crate's MIR into SMT (z3), one inductive step from an arbitrary valid table; Kani cross-check of the same step on the compiled code",
         functions=["CuckooFilter::{insert,delete,query,start(contract),insert_internal,write_to_bucket,has_in_bucket,remove_from_bucket,restore_state,len,is_empty}"],
         bounds={"quick": "(bucketsize,n_buckets)=(2,2): 4 slots, 64-bit symbolic slot contents/fingerprints, all hash functions, all RNG outcomes, eviction chains <= 2 and <= 4",
                 "thorough": "adds (2,4) and (4,2) [8 slots] and chains <= 6"},
         outside=["tables larger than 8 slots", "eviction chains longer than 6 (the relocation argument is per kick)", "the packed IntVector bit layout (Kani cross-check covers it at l=16, 4 slots)"],
         assumptions=M_ASSUME)
for (bs, nb, kicks, tier) in [(2, 2, 2, "quick"), (2, 2, 4, "quick"), (2, 4, 2, "thorough"), (4, 2, 2, "thorough"), (2, 2, 6, "thorough")]:
    tag = "bs%dnb%dk%d" % (bs, nb, kicks)
    p["units"].append(M("ck_insert_" + tag, tier, "insert(x) from an arbitrary valid table: Ok => Ok(true), len+1, class count +1 (others unchanged); Err => len and all class counts unchanged; n<bucketsize => Ok",
                        tag, model="cuckoo", op="insert", bs=bs, nb=nb, kicks=kicks, need_witness=["ok", "err"], timeout_s=3600))
for (bs, nb, tier) in [(2, 2, "quick"), (2, 4, "thorough"), (4, 2, "thorough")]:
    tag = "bs%dnb%d" % (bs, nb)
    p["units"].append(M("ck_delete_" + tag, tier, "delete(x): true iff a copy of x's class is stored; removes exactly one copy of that class; len-1", tag, model="cuckoo", op="delete", bs=bs, nb=nb, kicks=2, need_witness=["ret"]))
    p["units"].append(M("ck_query_" + tag, tier, "query(y) iff count(class y) >= 1; pure", tag, model="cuckoo", op="query", bs=bs, nb=nb, kicks=2, need_witness=["ret"]))
