//! ReservoirSampling: C18 (valid sample, step from an arbitrary valid state with a
//! symbolic RNG), C19, C11.  Items are stream position ids.
use crate::models::*;
use crate::vsrc::*;
use pdatastructs::reservoirsampling::ReservoirSampling;

type R = ReservoirSampling<u32, SymRng>;
const IMAX: usize = 1 << 20;

/// Arbitrary valid state for capacity `k` with the reservoir already full
/// (`i >= k` adds seen): `k` distinct position ids < i.  `fill` = number of items
/// for the fill phase variant (`i = fill < k`, reservoir is the prefix in order).
fn arb(k: usize, fill: Option<usize>) -> (R, usize, [u32; 3], usize) {
    let (i, len) = match fill {
        Some(f) => (f, f),
        None => {
            let i = any_usize();
            asm!(i >= k && i <= IMAX);
            (i, k)
        }
    };
    let mut ids = [0u32; 3];
    let mut v: Vec<u32> = Vec::with_capacity(k);
    for s in 0..len {
        let id = if fill.is_some() { s as u32 } else { any_u32() };
        asm!((id as usize) < i);
        if i <= k {
            asm!(id as usize == s);
        }
        for t in 0..s {
            asm!(ids[t] != id);
        }
        ids[s] = id;
        v.push(id);
    }
    let su = any_usize();
    asm!(su <= 4 * IMAX);
    (R::verif_from_parts(k, SymRng, v, i, su), i, ids, len)
}

fn step(k: usize, fill: Option<usize>) -> (usize, usize) {
    rng_reset();
    let (mut r, i, ids, len) = arb(k, fill);
    let cap0 = r.reservoir().capacity();
    chk!("pre_is_empty_iff", r.is_empty() == (i == 0));
    r.add(i as u32);
    let v = r.reservoir();
    let len2 = if i + 1 < k { i + 1 } else { k };
    chk!("len_is_min_n_k", v.len() == len2);
    chk!("i_counts_adds", r.i() == i + 1);
    chk!("not_empty_after_add", !r.is_empty());
    chk!("k_unchanged", r.k() == k);
    let mut changed = 0usize;
    for s in 0..len2 {
        let old_ok = s < len && v[s] == ids[s];
        let new_ok = v[s] == i as u32;
        chk!("slot_is_old_or_new_item", old_ok || new_ok);
        if !old_ok {
            changed += 1;
        }
        for t in 0..s {
            chk!("positions_distinct", v[t] != v[s]);
        }
    }
    chk!("at_most_one_slot_changed", changed <= 1);
    if i < k {
        chk!("fill_phase_appends", v[i] == i as u32 && changed == 1);
    }
    if i >= k {
        chk!("capacity_unchanged_when_full", v.capacity() == cap0);
    }
    chk!("capacity_bounded", v.capacity() <= if 2 * cap0 > 4 { 2 * cap0 } else { 4 });
    (i, changed)
}

fn step_full(k: usize) {
    let (i, changed) = step(k, None);
    cov!("reservoir_phase_stored", i < 4 * k && changed == 1);
    cov!("gap_phase_stored", i >= 4 * k && changed == 1);
    cov!("gap_phase_skipped", i >= 4 * k && changed == 0);
}

harness!(reservoir_step_k1, unwind 5, wmul_ln, { step_full(1) });
harness!(reservoir_step_k2, unwind 5, wmul_ln, { step_full(2) });
harness!(reservoir_step_k3, unwind 5, wmul_ln, { step_full(3) });
harness!(reservoir_fill_k1_i0, unwind 5, wmul_ln, { step(1, Some(0)); });
harness!(reservoir_fill_k3_i0, unwind 5, wmul_ln, { step(3, Some(0)); });
harness!(reservoir_fill_k3_i1, unwind 5, wmul_ln, { step(3, Some(1)); });
harness!(reservoir_fill_k3_i2, unwind 5, wmul_ln, { step(3, Some(2)); });

/// C19 clone: equal at the time of cloning, unaffected by a later mutation of the original.
/// (Clone and clear are separate harnesses: the combination clone + add + clear + add trips a Kani deallocation-model
/// artefact — "free argument must be dynamic object" — that does not exist natively.)
fn clone_independent(k: usize) {
    rng_reset();
    let (mut r, i, ids, len) = arb(k, None);
    let c = r.clone();
    chk!("clone_equal", c.i() == i && c.k() == k && c.reservoir().len() == len && c.verif_skip_until() == r.verif_skip_until());
    let s = any_usize();
    asm!(s < 3);
    if s < len {
        chk!("clone_equal_item", c.reservoir()[s] == ids[s]);
    }
    if any_bool() {
        r.add(i as u32);
    } else {
        r.clear();
    }
    chk!("clone_independent", c.i() == i && c.reservoir().len() == len && c.verif_skip_until() <= 4 * IMAX);
    if s < len {
        chk!("clone_independent_item", c.reservoir()[s] == ids[s]);
    }
    cov!("had_items", len == k);
}

/// C19 clear: every part as in a fresh sampler (incl. the skip counter), and the next add behaves like on a fresh one.
fn clear_is_fresh(k: usize) {
    rng_reset();
    let (mut r, _i, _ids, len) = arb(k, None);
    if any_bool() {
        r.add(9);
    }
    r.clear();
    let fresh = R::new(k, SymRng);
    chk!("clear_eq_fresh", r.i() == fresh.i() && r.reservoir().len() == fresh.reservoir().len()
        && r.verif_skip_until() == fresh.verif_skip_until() && r.k() == fresh.k());
    chk!("clear_is_empty", r.is_empty() && fresh.is_empty() && r.i() == 0);
    r.add(7);
    chk!("after_clear_fill", r.reservoir().len() == 1 && r.reservoir()[0] == 7 && r.i() == 1);
    cov!("had_items", len == k);
    // Kani's deallocation model reports spurious "free argument must be dynamic object" failures when these two are
    // dropped after an add/clear/add sequence (no such failure exists natively): do not run their destructors
    std::mem::forget(fresh);
    std::mem::forget(r);
}

harness!(reservoir_clear_clone_k1, unwind 5, wmul_ln, { clone_independent(1) });
harness!(reservoir_clear_clone_k3, unwind 5, wmul_ln, { clone_independent(3) });
harness!(reservoir_clear_fresh_k1, unwind 5, wmul_ln, { clear_is_fresh(1) });
harness!(reservoir_clear_fresh_k3, unwind 5, wmul_ln, { clear_is_fresh(3) });

/// Through the public API from scratch (k = 2, five adds): prefix order until the (k+1)-th add.
harness!(reservoir_api_prefix_k2, unwind 5, wmul_ln, {
    rng_reset();
    let mut r = R::new(2, SymRng);
    chk!("new_is_empty", r.is_empty() && r.i() == 0 && r.reservoir().len() == 0);
    r.add(0);
    chk!("prefix_1", r.reservoir().len() == 1 && r.reservoir()[0] == 0);
    r.add(1);
    chk!("prefix_2", r.reservoir().len() == 2 && r.reservoir()[0] == 0 && r.reservoir()[1] == 1);
    r.add(2);
    r.add(3);
    r.add(4);
    let v = r.reservoir();
    chk!("api_len", v.len() == 2 && r.i() == 5);
    chk!("api_distinct", v[0] != v[1]);
    chk!("api_items_from_stream", v[0] <= 4 && v[1] <= 4);
    cov!("last_item_kept", v[0] == 4 || v[1] == 4);
});

// ------------------------------------------------------------------ C05 (structural form)
// Under the contract that rand's samplers are uniform on the range they are asked for, "every
// position is kept with probability k/n" reduces (textbook induction for Algorithm R, and the
// geometric-gap argument for the skipping phase) to per-step conditions that are universally
// quantified over the RNG words and hence decidable.

/// `u` exactly as `add` computes it from the last 64-bit RNG word: u = 1 - gen_range(0.0..1.0).
fn u_of_word(w: u64) -> f64 {
    let v = f64::from_bits((w >> 12) | (1023u64 << 52)); // [1, 2)
    1.0 - (v - 1.0)
}

/// Reservoir phase (k <= i < 4k): exactly one integer draw from exactly i+1 values; the item is stored
/// iff the draw is < k, and then in that slot; nothing else changes.
fn c05_reservoir_phase(k: usize) {
    rng_reset();
    let (mut r, i, ids, _len) = arb(k, None);
    asm!(i + 1 < 4 * k);
    r.add(i as u32);
    chk!("reservoir_phase_one_integer_draw", rng_calls() == 1);
    chk!("reservoir_phase_draws_from_i_plus_1_values", rng_last_range() == i + 1);
    let j = rng_last_draw();
    let v = r.reservoir();
    for s in 0..k {
        let expect = if j < k && s == j { i as u32 } else { ids[s] };
        chk!("reservoir_phase_stored_iff_draw_below_k_in_that_slot", v[s] == expect);
    }
    cov!("kept", j < k);
    cov!("dropped", j >= k);
}
harness!(c05_reservoir_phase_k1, unwind 5, wmul_ln, { c05_reservoir_phase(1) });
harness!(c05_reservoir_phase_k2, unwind 5, wmul_ln, { c05_reservoir_phase(2) });
harness!(c05_reservoir_phase_k3, unwind 5, wmul_ln, { c05_reservoir_phase(3) });

/// The step that enters the skipping phase (i = 4k-1) and the first skipping-phase item (i = 4k):
/// the item at the switch is not forced into the reservoir — whether it is kept is governed by a
/// gap drawn before it, and both outcomes are possible.
fn c05_switch(k: usize) {
    rng_reset();
    let i = 4 * k - 1;
    let mut ids = [0u32; 3];
    let mut v: Vec<u32> = Vec::with_capacity(k);
    for s in 0..k {
        ids[s] = s as u32;
        v.push(s as u32);
    }
    // state as the reservoir phase leaves it: skip_until untouched since new()/clear()
    let mut r = R::verif_from_parts(k, SymRng, v, i, 0);
    r.add(100);
    let after_last_reservoir_step: Vec<u32> = r.reservoir().clone();
    let words_before = rng_words();
    r.add(200);
    let kept = r.reservoir().iter().any(|x| *x == 200);
    chk!("switch_item_only_replaces_one_slot", r.reservoir().len() == k);
    cov!("switch_item_can_be_skipped", !kept);
    cov!("switch_item_can_be_kept", kept);
    // The item AFTER the switch item (two-step history from the real switch state skip_until = 0): once an item has been
    // accepted in the skipping phase, the gap drawn with it governs the following items relative to the CURRENT position.
    // For u <= 1 - 2p/(1-p), p = k/(4k+1), the gap floor(ln u / ln(1-p)) is >= 2 for ANY libm (ln u <= u-1,
    // ln(1-p) >= -p/(1-p)), so the next item must be skipped — whether or not the switch item itself was forced in.
    if kept {
        let u = u_of_word(rng_last_u64());
        let p = (k as f64) / ((4 * k + 1) as f64);
        // lower end 0.35: there the gap is at most 4 <= 4k+1 for any libm, so that a tree which measures the gap from a stale
        // skip_until accepts item 300 natively as well (counterexamples replay whatever ln approximation found them)
        let band = u >= 0.35 && u < 1.0 - 2.0 * p / (1.0 - p) - 0.02;
        cov!("band_gap_two_after_switch", band);
        if band {
            r.add(300);
            chk!("item_after_switch_skipped_when_gap_at_least_two", !r.reservoir().iter().any(|x| *x == 300));
        }
    }
    let _ = (after_last_reservoir_step, words_before);
}
harness!(c05_switch_k1, unwind 5, wmul_ln, { c05_switch(1) });
harness!(c05_switch_k2, unwind 5, wmul_ln, { c05_switch(2) });

/// Skipping phase (i >= 4k), item below skip_until: nothing changes and no randomness is consumed.
fn c05_gap_skipped(k: usize) {
    rng_reset();
    let (mut r, i, ids, _len) = arb(k, None);
    asm!(i >= 4 * k);
    let su = r.verif_skip_until();
    asm!(i < su);
    r.add(i as u32);
    let v = r.reservoir();
    chk!("skipped_item_consumes_no_randomness", rng_words() == 0);
    chk!("skipped_item_keeps_skip_until", r.verif_skip_until() == su);
    for s in 0..k {
        chk!("skipped_item_changes_nothing", v[s] == ids[s]);
    }
}
harness!(c05_gap_skipped_k1, unwind 5, wmul_ln, { c05_gap_skipped(1) });
harness!(c05_gap_skipped_k3, unwind 5, wmul_ln, { c05_gap_skipped(3) });

/// Skipping phase, item at/after skip_until (concrete stream position i, every RNG outcome): written to a slot drawn
/// from exactly k values; then the next gap is drawn: the following item is certainly accepted when u > 1/(1+p) and
/// skipped for exactly one item when 1/(1+2p) < u < 1 - p/(1-p), p = k/(i+2) (elementary bounds on ln that hold for any libm).
fn c05_gap_accepted(k: usize, i: usize) {
    rng_reset();
    let mut ids = [0u32; 3];
    let mut v: Vec<u32> = Vec::with_capacity(k);
    for s in 0..k {
        ids[s] = s as u32;
        v.push(s as u32);
    }
    let su = any_usize();
    asm!(su <= i);
    let mut r = R::verif_from_parts(k, SymRng, v, i, su);
    r.add(i as u32);
    let v = r.reservoir();
    chk!("accepted_item_one_slot_draw", rng_calls() == 1);
    chk!("accepted_item_slot_from_k_values", rng_last_range() == k);
    let j = rng_last_draw();
    for s in 0..k {
        chk!("accepted_item_written_to_drawn_slot", v[s] == if s == j { i as u32 } else { ids[s] });
    }
    chk!("gap_drawn_after_acceptance", rng_u64_words() == 2);
    let su2 = r.verif_skip_until();
    // observational form: the following item (position i+1) is accepted iff i+1 >= skip_until. The two bands of u
    // below are those where the gap g = floor(ln u / ln(1-p)) is 0 resp. exactly 1 for ANY libm (elementary bounds
    // 1-1/x <= ln x <= x-1), so a counterexample inside them reproduces natively whatever ln approximation is used.
    let u = u_of_word(rng_last_u64());
    let p = (k as f64) / ((i + 2) as f64);
    if u > 1.0 / (1.0 + p) + 1e-9 {
        chk!("gap_zero_when_u_close_to_one", su2 <= i + 1);
    }
    if u > 1.0 / (1.0 + 2.0 * p) + 1e-9 && u < 1.0 - p / (1.0 - p) - 1e-9 {
        chk!("gap_one_skips_exactly_one_item", su2 == i + 2);
    }
    // gap >= 2 for ANY libm when u <= 1 - 2q/(1-q), q = k/(i+1) the acceptance probability the code uses: the next item is
    // skipped, measured from the CURRENT position i (not from a stale skip_until <= i).
    let q = (k as f64) / ((i + 1) as f64);
    if u < 1.0 - 2.0 * q / (1.0 - q) - 0.02 {
        chk!("gap_two_or_more_skips_next_item", su2 >= i + 2);
    }
    cov!("band_gap_two_or_more", u < 1.0 - 2.0 * q / (1.0 - q) - 0.02);
    cov!("next_item_accepted", su2 <= i + 1);
    cov!("next_item_skipped", su2 >= i + 2);
    cov!("band_gap_one", u > 1.0 / (1.0 + 2.0 * p) + 1e-9 && u < 1.0 - p / (1.0 - p) - 1e-9);
}
harness!(c05_gap_accepted_k1_i4, unwind 5, wmul_ln, { c05_gap_accepted(1, 4) });
harness!(c05_gap_accepted_k2_i8, unwind 5, wmul_ln, { c05_gap_accepted(2, 8) });
harness!(c05_gap_accepted_k2_i21, unwind 5, wmul_ln, { c05_gap_accepted(2, 21) });
harness!(c05_gap_accepted_k3_i100, unwind 5, wmul_ln, { c05_gap_accepted(3, 100) });
