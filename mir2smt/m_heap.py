"""Engine M: CMSHeap (C10, C19) from the MIR of /repo (dev profile: debug_assert! is part of the property).

Contracts over the key universe {0..K-1}: HashMap<Rc<T>,usize> = present[k]/vals[k]; BTreeSet<TreeEntry<T>> =
present[k]/n[k] (at most one entry per key — a second one is reported as MODEL-LIMIT and must be infeasible),
iteration order = (n, obj) ascending, i.e. the order `TreeEntry::cmp` defines (cmp is cross-checked against its
MIR in `run_cmp`); Rc<T> = the value; CountMinSketch::add(y) returns any c with T'[y] <= c <= T'[y] + E (C02).
"""
import re, time
import z3
from . import core
from .core import *

K = 3


class HeapInterp(Interp):
    cms_ret = None

    def sel(self, arr, key):
        e = arr[self.K - 1]
        for k in range(self.K - 2, -1, -1):
            e = z3.If(key == k, arr[k], e)
        return e

    def rvalue(self, fr, s):
        m = re.match(r'^(TreeEntry::<T>) \{(.*)\}$', s.strip())
        if m:
            return Struct('TreeEntry', [self.operand(fr, f.split(':', 1)[1]) for f in split_top(m.group(2))])
        return Interp.rvalue(self, fr, s)

    def deref_val(self, v):
        return self.read_ref(v) if isinstance(v, Ref) else v

    def call(self, fr, fname, args):
        K_ = self.K
        a = [self.operand(fr, x) for x in args]
        if fname == 'Rc::<T>::new':
            return a[0]
        if fname == '<Rc<T> as Deref>::deref':
            return a[0]
        if fname == '<Rc<T> as Clone>::clone':
            return self.deref_val(a[0])
        if re.match(r'^CountMinSketch::<T>::add$', fname):
            return self.cms_ret
        if re.match(r'^CountMinSketch::<T>::clear$', fname):
            self.shared['cms_cleared'] = True
            return Opaque('unit')
        if fname == 'HashMap::<Rc<T>, usize>::len':
            m = self.read_ref(a[0])
            return z3.Sum([z3.If(p, bv(1), bv(0)) for p in m.present])
        if fname == 'HashMap::<Rc<T>, usize>::is_empty':
            m = self.read_ref(a[0])
            return z3.Not(z3.Or(m.present))
        if fname == 'HashMap::<Rc<T>, usize>::clear':
            m = self.read_ref(a[0])
            self.write_ref(a[0], MapObj(K_, [z3.BoolVal(False)] * K_, m.vals))
            return Opaque('unit')
        if fname == 'BTreeSet::<TreeEntry<T>>::clear':
            st = self.read_ref(a[0])
            self.write_ref(a[0], SetObj(K_, [z3.BoolVal(False)] * K_, st.n))
            return Opaque('unit')
        if fname == 'HashMap::<Rc<T>, usize>::entry':
            return Entry(a[0], a[1])
        if fname.endswith("OccupiedEntry::<'_, Rc<T>, usize>::get_mut"):
            e = self.read_ref(a[0])
            return Ref((('mapval', e.mapref, e.key), []))
        if re.search(r"OccupiedEntry::<'_, Rc<T>, usize>::(get|into_mut)$", fname):
            e = self.read_ref(a[0]) if isinstance(a[0], Ref) else a[0]
            return Ref((('mapval', e.mapref, e.key), []))
        if re.search(r"OccupiedEntry::<'_, Rc<T>, usize>::key$", fname) or re.search(r"VacantEntry::<'_, Rc<T>, usize>::key$", fname):
            e = self.read_ref(a[0]) if isinstance(a[0], Ref) else a[0]
            return Ref((('val', e.key), []))
        if re.search(r"OccupiedEntry::<'_, Rc<T>, usize>::insert$", fname):
            e = self.read_ref(a[0]) if isinstance(a[0], Ref) else a[0]
            m = self.read_ref(e.mapref)
            old_v = self.sel(m.vals, e.key)
            self.write_ref(e.mapref, MapObj(K_, m.present, [z3.If(e.key == k, a[1], m.vals[k]) for k in range(K_)]))
            return old_v
        if fname.endswith("VacantEntry::<'_, Rc<T>, usize>::insert"):
            e = a[0]
            m = self.read_ref(e.mapref)
            self.write_ref(e.mapref, MapObj(K_, [z3.If(e.key == k, z3.BoolVal(True), m.present[k]) for k in range(K_)], [z3.If(e.key == k, a[1], m.vals[k]) for k in range(K_)]))
            return Ref((('mapval', e.mapref, e.key), []))
        if fname == 'HashMap::<Rc<T>, usize>::insert':
            m = self.read_ref(a[0])
            key = a[1]
            self.write_ref(a[0], MapObj(K_, [z3.If(key == k, z3.BoolVal(True), m.present[k]) for k in range(K_)], [z3.If(key == k, a[2], m.vals[k]) for k in range(K_)]))
            return Opaque('option')
        if fname == 'HashMap::<Rc<T>, usize>::remove::<Rc<T>>':
            m = self.read_ref(a[0])
            key = self.deref_val(a[1])
            self.write_ref(a[0], MapObj(K_, [z3.If(key == k, z3.BoolVal(False), m.present[k]) for k in range(K_)], m.vals))
            return Opaque('option')
        if fname == 'BTreeSet::<TreeEntry<T>>::remove::<TreeEntry<T>>':
            st = self.read_ref(a[0])
            e = self.deref_val(a[1])
            obj, n = e.fields
            # removal finds the element by Ord::cmp == Equal, i.e. same (n, obj)
            self.write_ref(a[0], SetObj(K_, [z3.And(st.present[k], z3.Not(z3.And(obj == k, st.n[k] == n))) for k in range(K_)], st.n))
            return z3.BoolVal(True)
        if fname == 'BTreeSet::<TreeEntry<T>>::insert':
            st = self.read_ref(a[0])
            e = a[1]
            obj, n = e.fields
            conflict = z3.Or([z3.And(obj == k, st.present[k], st.n[k] != n) for k in range(K_)])
            bad = z3.simplify(z3.And(self.cur_pc, conflict))
            if not z3.is_false(bad):
                self.results.append((bad, 'panic', 'MODEL-LIMIT: two tree entries with the same obj', None))
            self.write_ref(a[0], SetObj(K_, [z3.Or(st.present[k], obj == k) for k in range(K_)], [z3.If(z3.And(obj == k, z3.Not(st.present[k])), n, st.n[k]) for k in range(K_)]))
            return z3.BoolVal(True)
        if fname == 'BTreeSet::<TreeEntry<T>>::iter':
            return Opaque('setiter', st=self.read_ref(a[0]))
        if fname.endswith("as Iterator>::next") and 'btree_set::Iter' in fname:
            it = self.read_ref(a[0])
            st = it.st

            def lt(i, j):
                return z3.Or(z3.ULT(st.n[i], st.n[j]), z3.And(st.n[i] == st.n[j], i < j))
            ismin = [z3.And(st.present[k], z3.And([z3.Or(z3.Not(st.present[j]), lt(k, j)) for j in range(K_) if j != k])) for k in range(K_)]
            some = z3.Or(st.present)
            obj = bv(K_ - 1)
            n = st.n[K_ - 1]
            for k in range(K_ - 2, -1, -1):
                obj = z3.If(ismin[k], bv(k), obj)
                n = z3.If(ismin[k], st.n[k], n)
            return Struct('Option', [some, Ref((('val', Struct('TreeEntry', [obj, n])), []))])
        if re.match(r"^BTreeSet::<TreeEntry<T>>::(pop_first|pop_last|first|last)$", fname):
            # minimum / maximum by Ord of TreeEntry = (n, obj); pop_* removes it. Same contract as iter().next() above.
            st = self.read_ref(a[0])
            want_min = fname.endswith('first')

            def lt(i, j):
                return z3.Or(z3.ULT(st.n[i], st.n[j]), z3.And(st.n[i] == st.n[j], i < j))
            isext = [z3.And(st.present[k], z3.And([z3.Or(z3.Not(st.present[j]), lt(k, j) if want_min else lt(j, k)) for j in range(K_) if j != k])) for k in range(K_)]
            some = z3.Or(st.present)
            obj = bv(K_ - 1)
            n = st.n[K_ - 1]
            for k in range(K_ - 2, -1, -1):
                obj = z3.If(isext[k], bv(k), obj)
                n = z3.If(isext[k], st.n[k], n)
            if 'pop_' in fname:
                self.write_ref(a[0], SetObj(K_, [z3.And(st.present[k], z3.Not(isext[k])) for k in range(K_)], st.n))
                return Struct('Option', [some, Struct('TreeEntry', [obj, n])])
            return Struct('Option', [some, Ref((('val', Struct('TreeEntry', [obj, n])), []))])
        if fname == 'BTreeSet::<TreeEntry<T>>::len':
            st = self.read_ref(a[0])
            return z3.Sum([z3.If(p_, bv(1), bv(0)) for p_ in st.present])
        if fname == 'BTreeSet::<TreeEntry<T>>::is_empty':
            st = self.read_ref(a[0])
            return z3.Not(z3.Or(st.present))
        if fname == 'HashMap::<Rc<T>, usize>::contains_key::<Rc<T>>':
            m = self.read_ref(a[0])
            key = self.deref_val(a[1])
            return z3.Or([z3.And(key == k, m.present[k]) for k in range(K_)])
        if fname.startswith('std::option::Option::<&TreeEntry<T>>::unwrap'):
            o = a[0]
            bad = z3.simplify(z3.And(self.cur_pc, z3.Not(o.fields[0])))
            if not z3.is_false(bad):
                self.results.append((bad, 'panic', 'unwrap on None (empty tree)', None))
            self.cur_pc = z3.simplify(z3.And(self.cur_pc, o.fields[0]))
            return o.fields[1]
        if fname == '<TreeEntry<T> as Clone>::clone':
            return core.copyval(self.deref_val(a[0]))
        return Interp.call(self, fr, fname, args)


def cnt(bs):
    return z3.Sum([z3.If(b, bv(1), bv(0)) for b in bs])


def umin(a, b):
    return z3.If(z3.ULT(a, b), a, b)


def inv(mp, mn, tp, tn, T, kk, E, bound, kmax):
    """tree mirrors the map; tracked subset of seen; |tracked| = min(k, |seen|); tracked y: T <= n <= T+E;
    if full: untracked seen x has T[x] <= n of every tracked element (hence <= the minimum)."""
    cs = [z3.UGE(kk, 1), z3.ULE(kk, kmax), z3.ULT(E, bound)]
    seen = [T[k] != 0 for k in range(K)]
    for k in range(K):
        cs += [z3.ULT(T[k], bound), tp[k] == mp[k], z3.Implies(mp[k], tn[k] == mn[k])]
        cs += [z3.Implies(mp[k], z3.And(seen[k], z3.ULE(T[k], mn[k]), z3.ULE(mn[k], T[k] + E)))]
    cs.append(cnt(mp) == umin(kk, cnt(seen)))
    full = cnt(mp) == kk
    for x in range(K):
        for yy in range(K):
            if x != yy:
                cs.append(z3.Implies(z3.And(full, seen[x], z3.Not(mp[x]), mp[yy]), z3.ULE(T[x], mn[yy])))
    return z3.And(cs)


def cex_of(m, mp, mn, tp, tn, T, kk, E, c, y):
    g = lambda e: m.eval(e, model_completion=True)
    return {'op': 'add', 'k': g(kk).as_long(), 'y': g(y).as_long(), 'c': g(c).as_long(), 'E': g(E).as_long(),
            'map': [[k, g(mn[k]).as_long()] for k in range(K) if z3.is_true(g(mp[k]))],
            'tree': [[k, g(tn[k]).as_long()] for k in range(K) if z3.is_true(g(tp[k]))],
            'T': [g(T[k]).as_long() for k in range(K)]}


def run_add(fns, kmax, timeout_ms):
    t0 = time.time()
    I = HeapInterp(fns, K)
    I.shared = {}
    add = I.find(r'cmsheap::<impl.*>::add$')
    mp = [z3.Bool('mp%d' % k) for k in range(K)]
    mn = [z3.BitVec('mn%d' % k, 64) for k in range(K)]
    tp = [z3.Bool('tp%d' % k) for k in range(K)]
    tn = [z3.BitVec('tn%d' % k, 64) for k in range(K)]
    T = [z3.BitVec('T%d' % k, 64) for k in range(K)]
    kk = z3.BitVec('k', 64)
    E = z3.BitVec('E', 64)
    c = z3.BitVec('c', 64)
    y = z3.BitVec('y', 64)
    I.cms_ret = c
    world = {'locals': {'self': Struct('CMSHeap', [Opaque('cms'), MapObj(K, mp, mn), SetObj(K, tp, tn), kk])}}
    I.world = world
    T2 = [z3.If(y == k, T[k] + 1, T[k]) for k in range(K)]
    Ty2 = I.sel(T2, y)
    pre = z3.And(inv(mp, mn, tp, tn, T, kk, E, 2 ** 60, kmax), z3.ULT(y, K), z3.ULE(Ty2, c), z3.ULE(c, Ty2 + E))
    res = I.run(add, [Ref((('local', world, 'self'), [])), y], z3.BoolVal(True))
    out = {'paths': len(res), 'symex_s': round(time.time() - t0, 2), 'queries': 0, 'failed': [], 'witnesses': {}, 'cexs': {}}
    fam = {}
    for pc, kind, val, snap in res:
        out['queries'] += 1
        if kind == 'panic':
            r, mdl = solve([pre, pc], timeout_ms)
            if r != z3.unsat:
                tag = 'add_never_panics:' + val[:60]
                if val.startswith('MODEL-LIMIT: two tree entries'):
                    # a second tree entry for a tracked key IS a violation of "the tree mirrors the map" (iter() would
                    # yield a duplicate); the native replay confirms it on the real BTreeSet
                    tag = 'add_preserves_topk_invariant'
                elif val.startswith('MODEL'):
                    tag = 'MODEL: ' + val[:60]
                if tag not in out['failed']:
                    out['failed'].append(tag if r == z3.sat else 'UNKNOWN:' + tag)
                    if r == z3.sat:
                        out['cexs'][tag] = cex_of(mdl, mp, mn, tp, tn, T, kk, E, c, y)
            continue
        r0, _ = solve([pre, pc], timeout_ms)
        if r0 == z3.unsat:
            fam['infeasible'] = fam.get('infeasible', 0) + 1
            continue
        st = snap['self']
        m2, s2 = st.fields[1], st.fields[2]
        fam['ret'] = fam.get('ret', 0) + 1
        post = inv(m2.present, m2.vals, s2.present, s2.n, T2, st.fields[3], E, 2 ** 61, kmax)
        checks = [('add_preserves_topk_invariant', post), ('add_keeps_k', st.fields[3] == kk)]
        for tag, p_ in checks:
            out['queries'] += 1
            r, mdl = solve([pre, pc, z3.Not(p_)], timeout_ms)
            if r == z3.sat and tag not in out['failed']:
                out['failed'].append(tag)
                out['cexs'][tag] = cex_of(mdl, mp, mn, tp, tn, T, kk, E, c, y)
            elif r == z3.unknown:
                out['failed'].append('UNKNOWN:' + tag)
        # witnesses
        if solve([pre, pc, cnt(mp) == kk, z3.Not(I.sel(mp, y)), I.sel(m2.present, y)], timeout_ms)[0] == z3.sat:
            fam['kicked_out_minimum'] = 1
        if solve([pre, pc, z3.ULT(cnt(mp), kk), z3.Not(I.sel(mp, y)), z3.UGT(c, 1)], timeout_ms)[0] == z3.sat:
            fam['first_seen_with_inflated_estimate'] = 1
    out['witnesses'] = fam
    out['wall_s'] = round(time.time() - t0, 1)
    return out


def run_consequences(kmax, timeout_ms):
    """From the invariant alone (no code): the statement's clauses follow. Discharged by z3 over the same symbols."""
    t0 = time.time()
    out = {'paths': 0, 'queries': 0, 'failed': [], 'witnesses': {}, 'cexs': {}}
    mp = [z3.Bool('mp%d' % k) for k in range(K)]
    mn = [z3.BitVec('mn%d' % k, 64) for k in range(K)]
    T = [z3.BitVec('T%d' % k, 64) for k in range(K)]
    kk = z3.BitVec('k', 64)
    E = z3.BitVec('E', 64)
    I_ = inv(mp, mn, mp, mn, T, kk, E, 2 ** 60, kmax)
    seen = [T[k] != 0 for k in range(K)]
    goals = [('iter_yields_min_k_distinct_seen', cnt(mp) == umin(kk, cnt(seen))),
             ('iter_yields_only_added', z3.And([z3.Implies(mp[k], seen[k]) for k in range(K)]))]
    # x seen but missing => k tracked elements with T >= T[x] - E
    for x in range(K):
        others = cnt([z3.And(mp[j], z3.UGE(T[j] + E, T[x])) for j in range(K) if j != x])
        goals.append(('missing_only_if_k_others_within_E_%d' % x, z3.Implies(z3.And(seen[x], z3.Not(mp[x])), z3.UGE(others, kk))))
    for tag, gl in goals:
        out['queries'] += 1
        r, mdl = solve([I_, z3.Not(gl)], timeout_ms)
        if r != z3.unsat:
            out['failed'].append(tag if r == z3.sat else 'UNKNOWN:' + tag)
    out['witnesses']['ret'] = 1
    out['wall_s'] = round(time.time() - t0, 1)
    return out


def run_clear(fns, timeout_ms):
    t0 = time.time()
    out = {'paths': 0, 'queries': 0, 'failed': [], 'witnesses': {}, 'cexs': {}}
    I = HeapInterp(fns, K)
    I.shared = {}
    fn = I.find(r'cmsheap::<impl.*>::clear$')
    mp = [z3.Bool('mp%d' % k) for k in range(K)]
    mn = [z3.BitVec('mn%d' % k, 64) for k in range(K)]
    kk = z3.BitVec('k', 64)
    world = {'locals': {'self': Struct('CMSHeap', [Opaque('cms'), MapObj(K, mp, mn), SetObj(K, mp, mn), kk])}}
    I.world = world
    res = I.run(fn, [Ref((('local', world, 'self'), []))], z3.BoolVal(True))
    out['paths'] = len(res)
    for pc, kind, val, snap in res:
        out['queries'] += 1
        if kind == 'panic':
            if solve([pc], timeout_ms)[0] != z3.unsat:
                out['failed'].append('panic:clear ' + val[:40])
            continue
        st = snap['self']
        post = z3.And([z3.Not(p) for p in st.fields[1].present] + [z3.Not(p) for p in st.fields[2].present] + [st.fields[3] == kk])
        out['witnesses']['ret'] = 1
        if solve([pc, z3.Not(post)], timeout_ms)[0] != z3.unsat:
            out['failed'].append('clear_empties_map_and_tree')
            out['cexs']['clear_empties_map_and_tree'] = {'op': 'clear'}
        if not I.shared.get('cms_cleared'):
            out['failed'].append('clear_clears_sketch')
            out['cexs']['clear_clears_sketch'] = {'op': 'clear'}
    # is_empty
    I = HeapInterp(fns, K)
    I.shared = {}
    fn = I.find(r'cmsheap::<impl.*>::is_empty$')
    world = {'locals': {'self': Struct('CMSHeap', [Opaque('cms'), MapObj(K, mp, mn), SetObj(K, mp, mn), kk])}}
    I.world = world
    for pc, kind, val, snap in I.run(fn, [Ref((('local', world, 'self'), []))], z3.BoolVal(True)):
        if kind == 'ret':
            out['queries'] += 1
            if solve([pc, z3.Not(val == z3.Not(z3.Or(mp)))], timeout_ms)[0] != z3.unsat:
                out['failed'].append('is_empty_iff_nothing_tracked')
    out['wall_s'] = round(time.time() - t0, 1)
    return out


def run(fns, unit):
    tmo = unit.get('solver_timeout_ms', 600000)
    w = unit['what_m']
    if w == 'add':
        return run_add(fns, unit.get('kmax', 2), tmo)
    if w == 'consequences':
        return run_consequences(unit.get('kmax', 2), tmo)
    if w == 'clear':
        return run_clear(fns, tmo)
    return {'error': 'unknown heap unit'}


# --------------------------------------------------------------------------- translator validation
def eval_concrete_add(fns, case):
    """case: k, c, y, map [[key,n]..] (tree mirrors it) -> post map/tree through the encoding."""
    I = HeapInterp(fns, K)
    I.shared = {}
    add = I.find(r'cmsheap::<impl.*>::add$')
    mp = [z3.Bool('mp%d' % k) for k in range(K)]
    mn = [z3.BitVec('mn%d' % k, 64) for k in range(K)]
    kk = z3.BitVec('k', 64)
    c = z3.BitVec('c', 64)
    y = z3.BitVec('y', 64)
    I.cms_ret = c
    world = {'locals': {'self': Struct('CMSHeap', [Opaque('cms'), MapObj(K, mp, mn), SetObj(K, mp, mn), kk])}}
    I.world = world
    cur = {k: v for k, v in case['map']}
    pins = [kk == case['k'], c == case['c'], y == case['y']]
    for k in range(K):
        pins += [mp[k] == (k in cur), mn[k] == cur.get(k, 0)]
    res = I.run(add, [Ref((('local', world, 'self'), [])), y], z3.And(pins))
    found = []
    for pc, kind, val, snap in res:
        r, mdl = solve(pins + [pc], 60000)
        if r == z3.sat:
            found.append((kind, val, snap, mdl))
    if len(found) != 1:
        return {'error': 'expected one feasible path, got %d' % len(found)}
    kind, val, snap, mdl = found[0]
    if kind == 'panic':
        return {'result': 'panic'}
    g = lambda e: mdl.eval(e, model_completion=True)
    st = snap['self']
    m2, s2 = st.fields[1], st.fields[2]
    return {'result': 'ok', 'map': sorted([k, g(m2.vals[k]).as_long()] for k in range(K) if z3.is_true(g(m2.present[k]))),
            'tree': sorted([k, g(s2.n[k]).as_long()] for k in range(K) if z3.is_true(g(s2.present[k])))}


def random_case(rng):
    k = rng.choice([1, 2])
    keys = rng.sample(range(K), rng.randrange(0, k + 1))
    mp = [[x, rng.randrange(1, 6)] for x in sorted(keys)]
    y = rng.randrange(K)
    cur = dict((a, b) for a, b in mp)
    c = (cur[y] + 1) if y in cur else rng.randrange(1, 8)
    return {'op': 'add', 'k': k, 'map': mp, 'tree': mp, 'y': y, 'c': c, 'T': [0, 0, 0], 'E': 0}
