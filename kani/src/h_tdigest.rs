//! TDigest: C15 (quantile/cdf shape on hook-built digests, small-integer floats),
//! C16 (aggregates: insert step, merge step), C19 (clear/clone), C11 (backlog bound).
#![allow(static_mut_refs)]
use crate::vsrc::*;
use pdatastructs::tdigest::{ScaleFunction, TDigest, K0};

const EPS: f64 = 1e-9;

fn small() -> f64 {
    let v = any_i8();
    asm!(v >= -8 && v <= 8);
    v as f64
}
fn weight() -> f64 {
    let v = any_u8();
    asm!(v >= 1 && v <= 4);
    v as f64
}

/// Scale function that records the `n` it is asked about (observes `n_samples`
/// through the public trait).
#[derive(Clone, Copy, Debug)]
pub struct ProbeScale {
    pub pad: u8,
}
pub static mut PROBE_LAST_N: usize = usize::MAX;
pub static mut PROBE_CALLS: usize = 0;
impl ScaleFunction for ProbeScale {
    fn delta(&self) -> f64 {
        1000.0
    }
    fn f(&self, q: f64, n: usize) -> f64 {
        unsafe {
            PROBE_LAST_N = n;
            PROBE_CALLS += 1;
        }
        500.0 * q
    }
    fn f_inv(&self, k: f64, _n: usize) -> f64 {
        k / 500.0
    }
}

/// Scale function whose `f` and `f_inv` return ARBITRARY non-NaN values: stands for K0, K1, K2, K3 and any other
/// implementation of the trait at once, for clauses that must not depend on it (aggregates are exact whatever gets fused).
#[derive(Clone, Copy, Debug)]
pub struct AnyScale {
    pub pad: u8,
}
impl ScaleFunction for AnyScale {
    fn delta(&self) -> f64 {
        2.0
    }
    fn f(&self, _q: f64, _n: usize) -> f64 {
        let v = any_f64();
        asm!(!v.is_nan());
        v
    }
    fn f_inv(&self, _k: f64, _n: usize) -> f64 {
        let v = any_f64();
        asm!(!v.is_nan());
        v
    }
}

struct Parts {
    n: usize,
    w: [f64; 3],
    m: [f64; 3],
    mn: f64,
    mx: f64,
    s: f64,
    wmax: f64,
}

/// Arbitrary digest with `n` centroids (no backlog): weights 1..4, integer means
/// -8..8 in non-decreasing order, min <= first mean, last mean <= max.
fn arb_parts(n: usize, strict: bool) -> Parts {
    let mut w = [0.0; 3];
    let mut m = [0.0; 3];
    let mn = small();
    let mx = small();
    let mut s = 0.0;
    let mut wmax = 0.0;
    let mut prev = mn;
    for i in 0..n {
        w[i] = weight();
        m[i] = small();
        if strict && i > 0 {
            asm!(prev < m[i]);
        } else {
            asm!(prev <= m[i]);
        }
        prev = m[i];
        s += w[i];
        if w[i] > wmax {
            wmax = w[i];
        }
    }
    asm!(prev <= mx);
    Parts { n, w, m, mn, mx, s, wmax }
}

fn digest(p: &Parts) -> TDigest<K0> {
    let mut cs: Vec<(f64, f64)> = Vec::with_capacity(3);
    for i in 0..p.n {
        cs.push((p.w[i], p.m[i] * p.w[i]));
    }
    TDigest::verif_from_parts(K0::new(2.0), 10, &cs, p.mn, p.mx, p.n)
}

fn grid16() -> f64 {
    let a = any_u8();
    asm!(a <= 16);
    a as f64 / 16.0
}

fn quantile_ends(n: usize) {
    let p = arb_parts(n, false);
    let d = digest(&p);
    chk!("quantile_0_is_min", d.quantile(0.0) == p.mn);
    chk!("quantile_1_is_max", (d.quantile(1.0) - p.mx).abs() <= EPS);
    chk!("min_max_getters", d.min() == p.mn && d.max() == p.mx);
    cov!("outer_weight_gt_1", p.w[n - 1] > 1.0 && p.m[n - 1] < p.mx);
}

fn quantile_monotone(n: usize) {
    let p = arb_parts(n, false);
    let d = digest(&p);
    // adjacent grid points: monotone on neighbours => monotone on the whole 1/16 grid
    let ai = any_u8();
    asm!(ai < 16);
    let a = ai as f64 / 16.0;
    let b = (ai + 1) as f64 / 16.0;
    let qa = d.quantile(a);
    let qb = d.quantile(b);
    chk!("quantile_monotone", qa <= qb + EPS);
    chk!("quantile_in_range", p.mn - EPS <= qa && qb <= p.mx + EPS);
    cov!("right_tail", b * p.s > p.s - 0.5 * p.w[n - 1] && p.m[n - 1] < p.mx);
    cov!("left_tail", a * p.s < 0.5 * p.w[0] && p.mn < p.m[0]);
}

fn reads_repeatable(n: usize) {
    let p = arb_parts(n, false);
    let d = digest(&p);
    let q = grid16();
    let x = half_grid();
    let (q1, c1) = (d.quantile(q), d.cdf(x));
    chk!("quantile_repeatable", d.quantile(q) == q1);
    chk!("cdf_repeatable", d.cdf(x) == c1);
    chk!("reads_do_not_change_aggregates", d.min() == p.mn && d.max() == p.mx && d.count() == p.s);
}

fn half_grid() -> f64 {
    let a = any_i8();
    asm!(a >= -18 && a <= 18);
    a as f64 / 2.0
}

fn cdf_shape(n: usize) {
    let p = arb_parts(n, false);
    let d = digest(&p);
    // adjacent half-integer grid points
    let ai = any_i8();
    asm!(ai >= -18 && ai < 18);
    let a = ai as f64 / 2.0;
    let b = (ai + 1) as f64 / 2.0;
    let ca = d.cdf(a);
    let cb = d.cdf(b);
    chk!("cdf_monotone", ca <= cb + EPS);
    chk!("cdf_in_unit_interval", ca >= 0.0 && cb <= 1.0 + EPS);
    chk!("cdf_zero_below_min", !(a < p.mn) || ca == 0.0);
    chk!("cdf_one_from_max", !(b >= p.mx) || cb == 1.0);
    cov!("inside", a > p.mn && b < p.mx);
}

fn roundtrip(n: usize) {
    let p = arb_parts(n, true);
    let d = digest(&p);
    let q = grid16();
    let x = d.quantile(q);
    let c = d.cdf(x);
    let tol = p.wmax / p.s + EPS;
    chk!("cdf_of_quantile_is_q", (c - q).abs() <= tol);
    // "to within the digest's resolution" is only needed where quantile() is flat (equal neighbouring means, min == first
    // mean, last mean == max: a whole centroid's mass sits on one value). Everywhere else both functions are the same
    // piecewise-linear map read in the two directions, so cdf(quantile(q)) is q up to rounding - in the tails too.
    if p.mn < p.m[0] && p.m[n - 1] < p.mx {
        chk!("cdf_inverts_quantile_where_strictly_increasing", (c - q).abs() <= 1e-9);
    }
    cov!("left_tail_q", q > 0.0 && q * p.s < 0.5 * p.w[0] && p.mn < p.m[0]);
    cov!("right_tail_q", q * p.s > p.s - 0.5 * p.w[n - 1] && q < 1.0 && p.m[n - 1] < p.mx);
}

/// Interior interpolation with ARBITRARY finite f64 positions (the integer grid above cannot see overflow / cancellation):
/// two singleton centroids at a <= b (any finite doubles, either sign, up to f64::MAX apart), min = a, max = b; q in
/// {3/8, 4/8, 5/8} falls strictly between the two centroid centres (interpolation parameter t = 1/4, 1/2, 3/4).
/// quantile(q) must be a finite number within [min, max] up to a relative 2^-48 of the larger magnitude, and
/// non-decreasing in q.
fn quantile_interior_any_f64() {
    let a = any_f64();
    let b = any_f64();
    asm!(a.is_finite() && b.is_finite() && a <= b);
    let d: TDigest<K0> = TDigest::verif_from_parts(K0::new(2.0), 10, &[(1.0, a), (1.0, b)], a, b, 2);
    let j = any_u8();
    asm!(j >= 3 && j <= 4);
    let q0 = j as f64 / 8.0;
    let q1 = (j + 1) as f64 / 8.0;
    let r0 = d.quantile(q0);
    let r1 = d.quantile(q1);
    let mag = if a.abs() > b.abs() { a.abs() } else { b.abs() };
    let slack = mag * (1.0 / 281474976710656.0) + f64::MIN_POSITIVE; // 2^-48 relative
    chk!("interior_quantile_is_finite", r0.is_finite() && r1.is_finite());
    chk!("interior_quantile_within_min_max", a - slack <= r0 && r1 <= b + slack);
    chk!("interior_quantile_monotone", r0 <= r1 + slack);
    cov!("means_straddle_zero_far_apart", a < -1.0e308 && b > 1.0e308);
    cov!("equal_means", a == b);
    cov!("subnormal_gap", a > 0.0 && b < 1.0e-310);
}
harness!(td_quantile_interior_any_f64, unwind 5, { quantile_interior_any_f64() });
harness!(td_quantile_ends_n1, unwind 5, { quantile_ends(1) });
harness!(td_quantile_ends_n2, unwind 5, { quantile_ends(2) });
harness!(td_quantile_ends_n3, unwind 5, { quantile_ends(3) });
harness!(td_quantile_monotone_n1, unwind 5, { quantile_monotone(1) });
harness!(td_quantile_monotone_n2, unwind 5, { quantile_monotone(2) });
harness!(td_quantile_monotone_n3, unwind 5, { quantile_monotone(3) });
harness!(td_cdf_shape_n1, unwind 5, { cdf_shape(1) });
harness!(td_cdf_shape_n2, unwind 5, { cdf_shape(2) });
harness!(td_cdf_shape_n3, unwind 5, { cdf_shape(3) });
harness!(td_repeatable_n1, unwind 5, { reads_repeatable(1) });
harness!(td_repeatable_n2, unwind 5, { reads_repeatable(2) });
harness!(td_roundtrip_n1, unwind 5, { roundtrip(1) });
harness!(td_roundtrip_n2, unwind 5, { roundtrip(2) });
harness!(td_roundtrip_n3, unwind 5, { roundtrip(3) });

harness!(td_empty_reads, unwind 3, {
    let d = TDigest::new(K0::new(2.0), 10);
    let q = grid16();
    let x = half_grid();
    chk!("empty_quantile_nan", d.quantile(q).is_nan());
    chk!("empty_cdf_zero", d.cdf(x) == 0.0);
    chk!("empty_is_empty", d.is_empty());
    chk!("empty_count_sum", d.count() == 0.0 && d.sum() == 0.0 && d.n_centroids() == 0);
    chk!("empty_min_max", d.min() == f64::INFINITY && d.max() == f64::NEG_INFINITY);
});

// ------------------------------------------------------------------ C16
/// Raw total (count, sum) over centroids and backlog, no merge.
fn raw_totals<S: ScaleFunction + Clone + std::fmt::Debug>(d: &TDigest<S>) -> (f64, f64) {
    let (nc, nb) = d.verif_lens();
    let (mut c, mut s) = (0.0, 0.0);
    for i in 0..nc {
        let (cc, ss) = d.verif_centroid(i);
        c += cc;
        s += ss;
    }
    for i in 0..nb {
        let (cc, ss) = d.verif_backlog(i);
        c += cc;
        s += ss;
    }
    (c, s)
}

/// insert_weighted step without merge (backlog has room): totals, min/max, zero weight.
fn insert_step(nc: usize, nb: usize) {
    let p = arb_parts(nc, false);
    let mut d = {
        let mut cs: Vec<(f64, f64)> = Vec::with_capacity(3);
        for i in 0..nc {
            cs.push((p.w[i], p.m[i] * p.w[i]));
        }
        TDigest::verif_from_parts(K0::new(2.0), 10, &cs, p.mn, p.mx, nc + nb)
    };
    for _ in 0..nb {
        let (bw, bm) = (weight(), small());
        asm!(p.mn <= bm && bm <= p.mx);
        d.verif_push_backlog(bw, bm * bw);
    }
    let (c0, s0) = raw_totals(&d);
    let was_empty = d.is_empty();
    chk!("is_empty_iff_no_parts", was_empty == (nc + nb == 0));
    let x = small();
    let wv = any_u8();
    asm!(wv <= 4);
    let w = wv as f64;
    let (mn0, mx0) = (d.min(), d.max());
    d.insert_weighted(x, w);
    let (c1, s1) = raw_totals(&d);
    chk!("count_adds_weight", c1 == c0 + w);
    chk!("sum_adds_weighted_value", s1 == s0 + x * w);
    if w == 0.0 {
        chk!("zero_weight_changes_nothing", d.min() == mn0 && d.max() == mx0 && d.verif_lens() == (nc, nb) && d.is_empty() == was_empty);
    } else {
        chk!("min_updated", d.min() == if x < mn0 { x } else { mn0 });
        chk!("max_updated", d.max() == if x > mx0 { x } else { mx0 });
        chk!("not_empty_after_insert", !d.is_empty());
        chk!("backlog_bounded", d.verif_lens().1 <= d.max_backlog_size());
    }
    cov!("zero_weight", w == 0.0);
    cov!("new_min", w > 0.0 && x < mn0);
}
/// insert_weighted with an ARBITRARY finite weight >= 0 (not only small integers) into the empty digest and into a
/// one-centroid digest: every positive weight counts, however small.
fn insert_any_weight(nc: usize) {
    let p = arb_parts(nc.max(1), false);
    let mut d = if nc == 0 {
        TDigest::new(K0::new(2.0), 10)
    } else {
        TDigest::verif_from_parts(K0::new(2.0), 10, &[(p.w[0], p.m[0] * p.w[0])], p.mn, p.mx, 1)
    };
    let x = small();
    let w = any_f64();
    asm!(w >= 0.0 && w.is_finite());
    let (mn0, mx0) = (d.min(), d.max());
    let (nc0, nb0) = d.verif_lens();
    d.insert_weighted(x, w);
    let (nc1, nb1) = d.verif_lens();
    if w > 0.0 {
        chk!("positive_weight_is_recorded", nc1 + nb1 == nc0 + nb0 + 1);
        chk!("positive_weight_not_empty", !d.is_empty());
        chk!("positive_weight_updates_min", d.min() == if x < mn0 { x } else { mn0 });
        chk!("positive_weight_updates_max", d.max() == if x > mx0 { x } else { mx0 });
        let (bw, bs) = d.verif_backlog(nb1 - 1);
        chk!("positive_weight_stored_exactly", bw == w && bs == x * w);
    } else {
        chk!("zero_weight_changes_nothing", (nc1, nb1) == (nc0, nb0) && d.min() == mn0 && d.max() == mx0);
    }
    cov!("tiny_weight", w > 0.0 && w < 1e-300);
    cov!("huge_weight", w > 1e300);
}
/// The extremes are the inserted VALUES themselves, for values that are not small integers: x any finite f64 (|x| < 1e300),
/// weight 3 (not a power of two, so that x*w rounds) into the empty digest: min() == max() == x exactly.
fn insert_any_value_w3() {
    let mut d: TDigest<K0> = TDigest::new(K0::new(2.0), 10);
    let x = any_f64();
    asm!(x.is_finite() && x.abs() < 1.0e300);
    d.insert_weighted(x, 3.0);
    chk!("any_value_min_is_inserted_value", d.min() == x);
    chk!("any_value_max_is_inserted_value", d.max() == x);
    let (nc, nb) = d.verif_lens();
    chk!("any_value_recorded_once", nc + nb == 1);
    cov!("tiny_value", x > 0.0 && x < 1.0e-310);
    cov!("non_integer_value", x > 0.1 && x < 0.2);
}
harness!(td_insert_any_value_w3, unwind 5, { insert_any_value_w3() });
harness!(td_insert_any_weight_c0, unwind 5, { insert_any_weight(0) });
harness!(td_insert_any_weight_c1, unwind 5, { insert_any_weight(1) });
harness!(td_insert_step_c0b0, unwind 5, { insert_step(0, 0) });
harness!(td_insert_step_c2b1, unwind 5, { insert_step(2, 1) });
harness!(td_insert_step_c1b2, unwind 5, { insert_step(1, 2) });

/// Merge step (triggered by a read): totals preserved, output sorted, min/max kept.
fn merge_step(nc: usize, nb: usize, delta: f64) -> (usize, usize) {
    let p = arb_parts(nc, false);
    let mut d = {
        let mut cs: Vec<(f64, f64)> = Vec::with_capacity(3);
        for i in 0..nc {
            cs.push((p.w[i], p.m[i] * p.w[i]));
        }
        TDigest::verif_from_parts(K0::new(delta), 10, &cs, p.mn, p.mx, nc + nb)
    };
    for _ in 0..nb {
        let (bw, bm) = (weight(), small());
        asm!(p.mn <= bm && bm <= p.mx);
        d.verif_push_backlog(bw, bm * bw);
    }
    let (c0, s0) = raw_totals(&d);
    let n_in = nc + nb;
    let c = d.count();
    let (c1, s1) = raw_totals(&d);
    chk!("merge_preserves_count", c1 == c0 && c == c0);
    chk!("merge_preserves_sum", s1 == s0 && d.sum() == s0);
    chk!("mean_is_sum_over_count", d.mean() == s0 / c0);
    chk!("merge_keeps_min_max", d.min() == p.mn && d.max() == p.mx);
    let (oc, ob) = d.verif_lens();
    chk!("merge_empties_backlog", ob == 0);
    chk!("merge_output_not_longer", oc >= 1 && oc <= n_in && d.n_centroids() == oc);
    let mut prev = f64::NEG_INFINITY;
    for i in 0..oc {
        let (cc, ss) = d.verif_centroid(i);
        let mean = ss / cc;
        chk!("merge_output_sorted", prev <= mean);
        chk!("merge_output_positive_weight", cc > 0.0);
        prev = mean;
    }
    (oc, n_in)
}
// delta = 1.1 fuses everything, delta = 1000 nothing: each configuration must reach its own case (a witness placed in the
// shared body would be unreachable code in the other configuration)
harness!(td_merge_step_c1b1_fuse, unwind 5, {
    let (oc, n_in) = merge_step(1, 1, 1.1);
    cov!("fused", oc < n_in);
});
harness!(td_merge_step_c1b1_keep, unwind 5, {
    let (oc, n_in) = merge_step(1, 1, 1000.0);
    cov!("not_fused", oc == n_in);
});
harness!(td_merge_step_c2b1_keep, unwind 6, {
    let (oc, n_in) = merge_step(2, 1, 1000.0);
    cov!("not_fused", oc == n_in);
});
harness!(td_merge_step_c1b2_fuse, unwind 6, {
    let (oc, n_in) = merge_step(1, 2, 1.1);
    cov!("fused", oc < n_in);
});

/// Backlog size 0: every insert merges at once.
harness!(td_insert_merges_backlog0, unwind 5, {
    let p = arb_parts(1, false);
    let mut d = TDigest::verif_from_parts(K0::new(1000.0), 0, &[(p.w[0], p.m[0] * p.w[0])], p.mn, p.mx, 1);
    let (x, w) = (small(), weight());
    d.insert_weighted(x, w);
    let (nc, nb) = d.verif_lens();
    chk!("backlog0_merged_at_once", nb == 0 && nc == 2);
    let (c1, s1) = raw_totals(&d);
    chk!("backlog0_count", c1 == p.w[0] + w && d.count() == c1);
    chk!("backlog0_sum", s1 == p.m[0] * p.w[0] + x * w);
    chk!("backlog0_min_max", d.min() == if x < p.mn { x } else { p.mn } && d.max() == if x > p.mx { x } else { p.mx });
});

/// Backlog size 0 with total fusion (delta = 1.1): the insert merges at once and fuses everything into one centroid.
harness!(td_insert_merges_backlog0_fuse, unwind 5, {
    let p = arb_parts(1, false);
    let mut d = TDigest::verif_from_parts(K0::new(1.1), 0, &[(p.w[0], p.m[0] * p.w[0])], p.mn, p.mx, 1);
    let (x, w) = (small(), weight());
    d.insert_weighted(x, w);
    let (nc, nb) = d.verif_lens();
    chk!("backlog0_merged_at_once", nb == 0 && (nc == 1 || nc == 2));
    // K0 with delta = 1.1: f_inv(f(0) + 1) clamps to q = 1, so EVERYTHING fuses into one centroid whatever the weights
    // (the "total fusion" end of the delta range; also the size bound of C11/C04 in its smallest instance)
    chk!("total_fusion_at_delta_1_1", nc == 1);
    let (c1, s1) = raw_totals(&d);
    chk!("fuse_preserves_count", c1 == p.w[0] + w && d.count() == c1);
    chk!("fuse_preserves_sum", s1 == p.m[0] * p.w[0] + x * w && d.sum() == s1);
    chk!("fuse_min_max", d.min() == if x < p.mn { x } else { p.mn } && d.max() == if x > p.mx { x } else { p.mx });
    cov!("fused_into_one", nc == 1);
});

/// The same merge with a scale function that answers ANYTHING (covers K0..K3 and every other ScaleFunction): whatever
/// gets fused, count / sum / min / max stay exact, the backlog is emptied and the output is one or two sorted centroids.
harness!(td_insert_merges_backlog0_anyscale, unwind 5, {
    let p = arb_parts(1, false);
    let mut d = TDigest::verif_from_parts(AnyScale { pad: 0 }, 0, &[(p.w[0], p.m[0] * p.w[0])], p.mn, p.mx, 1);
    let (x, w) = (small(), weight());
    d.insert_weighted(x, w);
    let (nc, nb) = d.verif_lens();
    chk!("anyscale_merged_at_once", nb == 0 && (nc == 1 || nc == 2));
    let (c1, s1) = raw_totals(&d);
    chk!("anyscale_count_exact", c1 == p.w[0] + w);
    chk!("anyscale_sum_exact", s1 == p.m[0] * p.w[0] + x * w);
    chk!("anyscale_min_max", d.min() == if x < p.mn { x } else { p.mn } && d.max() == if x > p.mx { x } else { p.mx });
    if nc == 2 {
        let (a, b) = (d.verif_centroid(0), d.verif_centroid(1));
        chk!("anyscale_output_sorted", a.1 / a.0 <= b.1 / b.0);
    }
    cov!("anyscale_fused", nc == 1);
    cov!("anyscale_kept", nc == 2);
});

/// C11 (centroid bound) rests on the scale function being asked about the right `n`: `ScaleFunction::f(q, n)` documents `n` as
/// the number of samples, and K2/K3 turn it into the cluster-size limit (n = 0 makes ln(n/delta) = -inf: nothing is ever
/// fused and the centroid list grows with the stream). Observed through the public trait with a recording scale function:
/// after an insert of ANY positive finite weight the merge asks with n = (inserts so far) + 1.
harness!(td_scale_fn_sees_sample_count, unwind 5, {
    let n0 = any_u16();
    asm!(n0 >= 1 && n0 <= 60000);
    let (w0, m0) = (weight(), small());
    let mut d = TDigest::verif_from_parts(ProbeScale { pad: 0 }, 10, &[(w0, m0 * w0)], m0, m0, n0 as usize);
    let x = small();
    let w = any_f64();
    asm!(w > 0.0 && w <= 1.0e6);
    d.insert_weighted(x, w);
    // `merge` passes exactly this counter to ScaleFunction::f / f_inv (read through the hook: running the merge itself with
    // a symbolic float weight trips Kani's realloc model, see td_clear_resets_n_for_scale_fn)
    chk!("scale_fn_sees_number_of_inserts", d.verif_n_samples() == n0 as usize + 1);
    let (_, nb) = d.verif_lens();
    chk!("backlog_bounded", nb <= 10);
    cov!("fractional_weight", w < 1.0);
    cov!("large_weight", w > 2.0);
});

// ------------------------------------------------------------------ C19
harness!(td_clear_clone, unwind 5, {
    let p = arb_parts(2, false);
    let mut d = digest(&p);
    let (bw, bm) = (weight(), small());
    asm!(p.mn <= bm && bm <= p.mx);
    d.verif_push_backlog(bw, bm * bw);
    let c = d.clone();
    chk!("clone_equal", c.verif_lens() == (2, 1) && c.verif_centroid(0) == d.verif_centroid(0) && c.verif_centroid(1) == d.verif_centroid(1)
        && c.verif_backlog(0) == d.verif_backlog(0) && c.min() == d.min() && c.max() == d.max() && c.verif_n_samples() == d.verif_n_samples()
        && c.delta() == d.delta() && c.max_backlog_size() == d.max_backlog_size());
    if any_bool() {
        d.insert_weighted(small(), weight());
    } else {
        d.clear();
    }
    chk!("clone_independent", c.verif_lens() == (2, 1) && c.verif_centroid(0) == (p.w[0], p.m[0] * p.w[0]) && c.min() == p.mn && c.max() == p.mx);
    d.clear();
    let fresh = TDigest::new(K0::new(2.0), 10);
    chk!("clear_parts_eq_fresh", d.verif_lens() == fresh.verif_lens() && d.min() == fresh.min() && d.max() == fresh.max());
    chk!("clear_is_empty", d.is_empty() && fresh.is_empty());
    chk!("clear_cfg_kept", d.delta() == 2.0 && d.max_backlog_size() == 10);
    chk!("clear_reads_like_fresh", d.quantile(0.5).is_nan() && d.cdf(0.0) == 0.0 && d.count() == 0.0);
});

/// After clear(), the sample counter that `merge` hands to the scale function (`ScaleFunction::f(q, n)`; K2 and K3
/// depend on it) must be what a fresh digest has after the same inserts.  Read through the hook: running the merge
/// itself on a cleared (allocated-but-empty) centroid vector trips Kani pointer-model limitations.
harness!(td_clear_resets_n_for_scale_fn, unwind 5, {
    let nsamp = any_u8();
    asm!(nsamp >= 1 && nsamp <= 200);
    let (w0, m0) = (weight(), small());
    let mut d = TDigest::verif_from_parts(ProbeScale { pad: 0 }, 10, &[(w0, m0 * w0)], m0, m0, nsamp as usize);
    let mut fresh = TDigest::new(ProbeScale { pad: 0 }, 10);
    d.clear();
    chk!("cleared_sample_counter_as_fresh", d.verif_n_samples() == fresh.verif_n_samples());
    let (x, y) = (small(), small());
    fresh.insert(x);
    fresh.insert(y);
    d.insert(x);
    d.insert(y);
    chk!("fresh_counts_two_samples", fresh.verif_n_samples() == 2);
    chk!("cleared_scale_fn_sees_same_n_as_fresh", d.verif_n_samples() == fresh.verif_n_samples());
    chk!("cleared_parts_as_fresh_after_inserts", d.verif_lens() == fresh.verif_lens() && d.min() == fresh.min() && d.max() == fresh.max());
});
