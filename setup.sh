#!/bin/bash
# Offline setup after a fresh restore: warm the Kani and native build caches (optional; every check rebuilds what it needs).
cd "$(dirname "$0")"
export CARGO_NET_OFFLINE=true
mkdir -p .cache evidence replays
cp /repo/Cargo.lock kani/Cargo.lock 2>/dev/null || true
python3 gen_registry.py >/dev/null
(cd kani && cargo build --offline --target-dir ../.cache/native --bin replay >/dev/null 2>&1) || echo "warn: native warm-up build failed (checks will retry)"
python3-vt -c "import z3" || { echo "z3 python bindings missing"; exit 1; }
cargo kani --version >/dev/null || { echo "kani missing"; exit 1; }
echo setup ok
