"""Engine M: QuotientFilter insert_internal / union from the MIR of /repo, against the reference encoder enc(X).

Contracts: FixedBitSet = vector of Booleans (index/set/len/clone), IntVector = array (get/set/clone, range-checked),
VecDeque<usize> = finite sequence (new/push_back/pop_front), Option/Result as tagged values.
Pre-state: enc(X) for a symbolic member set X (bits[q][r]); the other operand of union is fixed to a *shape*
(how many members each quotient holds — this fixes its metadata bits and hence union's own control flow) with
symbolic remainders; all shapes are enumerated by the caller (one unit per shape)."""
import itertools, re, time
import z3
from . import core
from .core import *
from .m_cuckoo import CkInterp


class QfInterp(CkInterp):
    impl_pat = r'quotientfilter::<impl.*>::%s$'
    self_prefix = r'(?:QuotientFilter::<T, B>|ScanResult)'
    multi_return = ()
    element_bits = 2

    def is_model_call(self, fname):
        return fname.startswith('<FixedBitSet as Index') or fname.startswith('FixedBitSet::') or fname.startswith('<IntVector as')

    def rvalue(self, fr, s):
        s = s.strip()
        m = re.match(r'^std::option::Option::<usize>::Some\((.*)\)$', s)
        if m:
            return OptionVal(z3.BoolVal(True), self.operand(fr, m.group(1)))
        if s == 'std::option::Option::<usize>::None':
            return OptionVal(z3.BoolVal(False), bv(0))
        m = re.match(r'^ScanResult \{(.*)\}$', s)
        if m:
            return Struct('ScanResult', [self.operand(fr, f.split(':', 1)[1]) for f in split_top(m.group(1))])
        return CkInterp.rvalue(self, fr, s)

    def call(self, fr, fname, args):
        if fname in ('<FixedBitSet as Clone>::clone', '<IntVector as Clone>::clone'):
            a = self.operand(fr, args[0])
            return core.copyval(self.read_ref(a))
        if fname.endswith('::element_bits'):
            return bv(self.element_bits)
        if fname == 'VecDeque::<usize>::new':
            return VecObj([])
        a = [self.operand(fr, x) for x in args]
        if fname == 'VecDeque::<usize>::push_back':
            v = self.read_ref(a[0])
            self.write_ref(a[0], VecObj(v.items + [a[1]]))
            return Opaque('unit')
        if fname == 'VecDeque::<usize>::pop_front':
            v = self.read_ref(a[0])
            if v.items:
                self.write_ref(a[0], VecObj(v.items[1:]))
                return OptionVal(z3.BoolVal(True), v.items[0])
            return OptionVal(z3.BoolVal(False), bv(0))
        if fname == 'std::option::Option::<usize>::unwrap':
            o = a[0]
            some = o.some if z3.is_expr(o.some) else z3.BoolVal(o.some)
            bad = z3.simplify(z3.And(self.cur_pc, z3.Not(some)))
            if not z3.is_false(bad):
                self.results.append((bad, 'panic', 'unwrap on None (pop_front)', None))
            self.cur_pc = z3.simplify(z3.And(self.cur_pc, some))
            return o.payload
        if fname == '<FixedBitSet as Index<usize>>::index':
            # fixedbitset's Index is `contains(bit)`: an out-of-range index reads as false, it does not panic
            b = self.read_ref(a[0])
            inr = z3.ULT(a[1], bv(len(b.bits)))
            return Ref((('val', z3.And(inr, self.sel(b.bits, a[1]))), []))
        if fname == 'FixedBitSet::len':
            return bv(len(self.read_ref(a[0]).bits))
        if fname == 'FixedBitSet::set':
            b = self.read_ref(a[0])
            self.bounds('FixedBitSet::set', a[1], len(b.bits))
            self.write_ref(a[0], BitsObj([z3.If(a[1] == k, a[2], b.bits[k]) for k in range(len(b.bits))]))
            return Opaque('unit')
        if fname == 'std::option::Option::<usize>::is_some':
            o = self.read_ref(a[0]) if isinstance(a[0], Ref) else a[0]
            return o.some if z3.is_expr(o.some) else z3.BoolVal(o.some)
        return CkInterp.call(self, fr, fname, args)


def enc_z3(bits, NQ, NR):
    """canonical layout from symbolic membership bits[q][r] (z3 Bool) -> per-slot (occ, cont, sh, rem)"""
    cnt = [z3.Sum([z3.If(bits[q][r], bv(1), bv(0)) for r in range(NR)]) for q in range(NQ)]

    def umax(a, b):
        return z3.If(z3.UGT(a, b), a, b)
    free = bv(0)
    for q in range(NQ):
        free = umax(free, bv(q)) + cnt[q]
    free = z3.If(z3.UGT(free, NQ), free - NQ, bv(0))
    occ = [z3.BoolVal(False)] * NQ
    cont = [z3.BoolVal(False)] * NQ
    sh = [z3.BoolVal(False)] * NQ
    rem = [bv(0)] * NQ
    for q in range(NQ):
        start = umax(free, bv(q))
        pos = start
        first = z3.BoolVal(True)
        for r in range(NR):
            b = bits[q][r]
            s = z3.URem(pos, bv(NQ))
            for t in range(NQ):
                hit = z3.And(b, s == t)
                cont[t] = z3.If(hit, z3.Not(first), cont[t])
                sh[t] = z3.If(hit, pos != q, sh[t])
                rem[t] = z3.If(hit, bv(r), rem[t])
            first = z3.And(first, z3.Not(b))
            pos = z3.If(b, pos + 1, pos)
        occ[q] = cnt[q] != 0
        free = umax(free, pos)
    return occ, cont, sh, rem


def enc_py(members, NQ, NR):
    """concrete reference encoder (same algorithm) for native replays: members = set of (q, r)."""
    cnt = [sum(1 for r in range(NR) if (q, r) in members) for q in range(NQ)]
    free = 0
    for q in range(NQ):
        free = max(free, q) + cnt[q]
    free = free - NQ if free > NQ else 0
    slots = [[False, False, False, 0] for _ in range(NQ)]
    for q in range(NQ):
        pos = max(free, q)
        first = True
        for r in range(NR):
            if (q, r) in members:
                s = pos % NQ
                slots[s][1] = not first
                slots[s][2] = pos != q
                slots[s][3] = r
                first = False
                pos += 1
        if cnt[q]:
            slots[q][0] = True
        free = max(free, pos)
    return slots


def mk(o, c, s_, r_, n, bq):
    return Struct('QuotientFilter', [BitsObj(o), BitsObj(c), BitsObj(s_), TableObj(r_), bv(bq), Opaque('bh'), n, Opaque('ph')])


def same_state(st, e, NQ):
    same = []
    for t in range(NQ):
        held = z3.Or(e[0][t], e[1][t], e[2][t])
        same += [st.fields[0].bits[t] == e[0][t], st.fields[1].bits[t] == e[1][t], st.fields[2].bits[t] == e[2][t], z3.Implies(held, st.fields[3].vals[t] == e[3][t])]
    return z3.And(same)


def members_of(m, bits, NQ, NR):
    return [[q, r] for q in range(NQ) for r in range(NR) if z3.is_true(m.eval(bits[q][r], model_completion=True))]


def run_checks(out, checks, pre, pc, okv, mkcex, timeout_ms):
    """One query per obligation. An obligation given as (tag_ok, tag_err) is ONE formula whose counterexamples are attributed to the
    Ok or the Err outcome of the call (the two outcomes belong to different properties): the model decides the side, and the
    other side is then queried on its own so that neither is masked."""
    for tag, post in checks:
        out['queries'] += 1
        r, mdl = solve([pre, pc, z3.Not(post)], timeout_ms)
        if isinstance(tag, tuple):
            if r == z3.sat:
                side = z3.is_true(mdl.eval(okv, model_completion=True))
                found = [(tag[0] if side else tag[1], mdl)]
                out['queries'] += 1
                r2, mdl2 = solve([pre, pc, z3.Not(post), z3.Not(okv) if side else okv], timeout_ms)
                if r2 == z3.sat:
                    found.append((tag[1] if side else tag[0], mdl2))
                elif r2 == z3.unknown:
                    out['failed'].append('UNKNOWN:' + (tag[1] if side else tag[0]))
                for t, m_ in found:
                    if t not in out['failed']:
                        out['failed'].append(t)
                        out['cexs'][t] = mkcex(m_, t)
            elif r == z3.unknown:
                for t in tag:
                    if ('UNKNOWN:' + t) not in out['failed']:
                        out['failed'].append('UNKNOWN:' + t)
            continue
        if r == z3.sat and tag not in out['failed']:
            out['failed'].append(tag)
            out['cexs'][tag] = mkcex(mdl, tag)
        elif r == z3.unknown and ('UNKNOWN:' + tag) not in out['failed']:
            out['failed'].append('UNKNOWN:' + tag)


def run_insert(fns, bq, br, timeout_ms):
    t0 = time.time()
    NQ, NR = 1 << bq, 1 << br
    I = QfInterp(fns, 1)
    I.element_bits = br
    I.shared = {'ctr': itertools.count(), 'draws': [], 'stat': {}}
    I.merge_diamonds = True
    bits = [[z3.Bool('m_%d_%d' % (q, r)) for r in range(NR)] for q in range(NQ)]
    occ, cont, sh, rem = enc_z3(bits, NQ, NR)
    total = z3.Sum([z3.If(bits[q][r], bv(1), bv(0)) for q in range(NQ) for r in range(NR)])
    world = {'locals': {'self': mk(occ, cont, sh, rem, total, bq)}}
    I.world = world
    yq = z3.BitVec('yq', 64)
    yr = z3.BitVec('yr', 64)
    pre = z3.And(z3.ULE(total, NQ), z3.ULT(yq, NQ), z3.ULT(yr, NR))
    fn = I.find(r'quotientfilter::<impl.*>::insert_internal$')
    res = I.run(fn, [Ref((('local', world, 'self'), [])), yq, yr], pre)
    out = {'paths': len(res), 'symex_s': round(time.time() - t0, 1), 'queries': 0, 'failed': [], 'witnesses': {}, 'cexs': {}, 'stat': dict(I.shared['stat'])}
    present = z3.Or([z3.And(yq == q, yr == r, bits[q][r]) for q in range(NQ) for r in range(NR)])
    bits2 = [[z3.Or(bits[q][r], z3.And(yq == q, yr == r)) for r in range(NR)] for q in range(NQ)]
    fam = {}
    for pc, kind, val, snap in res:
        out['queries'] += 1
        if kind == 'panic':
            r, mdl = solve([pre, pc], timeout_ms)
            if r != z3.unsat:
                tag = 'panic:' + val[:50]
                if tag not in out['failed']:
                    out['failed'].append(tag if r == z3.sat else 'UNKNOWN:' + tag)
                    if r == z3.sat:
                        out['cexs'][tag] = {'op': 'insert', 'bq': bq, 'br': br, 'members': members_of(mdl, bits, NQ, NR), 'y': [mdl.eval(yq, model_completion=True).as_long(), mdl.eval(yr, model_completion=True).as_long()]}
            continue
        st = snap['self']
        full = total == NQ
        okv = val.ok
        fam['ret'] = fam.get('ret', 0) + 1
        newbits = [[z3.If(z3.And(okv, z3.Not(present)), bits2[q][r], bits[q][r]) for r in range(NR)] for q in range(NQ)]
        e = enc_z3(newbits, NQ, NR)
        checks = [('insert_result_kind', okv == z3.Or(present, z3.Not(full))),
                  ('insert_true_iff_new_class', z3.Implies(okv, val.payload == z3.Not(present)) if z3.is_expr(val.payload) else z3.BoolVal(True)),
                  (('len_is_number_of_classes', 'insert_err_len_unchanged'), st.fields[6] == z3.If(z3.And(okv, z3.Not(present)), total + 1, total)),
                  (('post_state_is_canonical_encoding', 'insert_err_state_unchanged'), same_state(st, e, NQ))]
        mkcex_i = lambda mdl, tag: {'op': 'insert', 'bq': bq, 'br': br, 'members': members_of(mdl, bits, NQ, NR), 'y': [mdl.eval(yq, model_completion=True).as_long(), mdl.eval(yr, model_completion=True).as_long()]}
        run_checks(out, checks, pre, pc, okv, mkcex_i, timeout_ms)
        if solve([pre, pc, z3.Not(okv)], timeout_ms)[0] == z3.sat:
            fam['err_full'] = 1
        if solve([pre, pc, okv, z3.Not(present), total == NQ - 1], timeout_ms)[0] == z3.sat:
            fam['ok_new_into_nearly_full'] = 1
    out['witnesses'] = fam
    out['wall_s'] = round(time.time() - t0, 1)
    return out


def shapes(NQ, maxn):
    """count vectors (members per quotient) with sum <= maxn"""
    out = []
    for c in itertools.product(range(maxn + 1), repeat=NQ):
        if sum(c) <= maxn:
            out.append(list(c))
    return out


def run_union(fns, bq, br, shape, timeout_ms):
    """self = enc(X) fully symbolic; other = enc(Y) with |Y ∩ quotient q| = shape[q], remainders symbolic (ascending per quotient)."""
    t0 = time.time()
    NQ, NR = 1 << bq, 1 << br
    I = QfInterp(fns, 1)
    I.element_bits = br
    I.shared = {'ctr': itertools.count(), 'draws': [], 'stat': {}}
    I.merge_diamonds = True
    bits = [[z3.Bool('m_%d_%d' % (q, r)) for r in range(NR)] for q in range(NQ)]
    occ, cont, sh, rem = enc_z3(bits, NQ, NR)
    total = z3.Sum([z3.If(bits[q][r], bv(1), bv(0)) for q in range(NQ) for r in range(NR)])
    # other's members: per quotient shape[q] strictly ascending symbolic remainders
    yrem = [[z3.BitVec('y_%d_%d' % (q, i), 64) for i in range(shape[q])] for q in range(NQ)]
    ycons = []
    for q in range(NQ):
        for i, v in enumerate(yrem[q]):
            ycons.append(z3.ULT(v, NR))
            if i > 0:
                ycons.append(z3.ULT(yrem[q][i - 1], v))
    ybits = [[z3.Or([v == r for v in yrem[q]]) if yrem[q] else z3.BoolVal(False) for r in range(NR)] for q in range(NQ)]
    # other's concrete metadata layout from the shape (via the python encoder on placeholder remainders 0..)
    placeholder = set((q, i) for q in range(NQ) for i in range(shape[q]))
    if any(shape[q] > NR for q in range(NQ)):
        return {'paths': 0, 'queries': 0, 'failed': [], 'witnesses': {'skipped_shape': 1}, 'cexs': {}}
    lay = enc_py(placeholder, NQ, max(NR, max(shape) if shape else 1))
    # map slot -> (q, index) by replaying the placement
    cnt = shape
    free = 0
    for q in range(NQ):
        free = max(free, q) + cnt[q]
    free = free - NQ if free > NQ else 0
    slot_of = {}
    for q in range(NQ):
        pos = max(free, q)
        for i in range(shape[q]):
            slot_of[pos % NQ] = (q, i)
            pos += 1
        free = max(free, pos)
    T, F = z3.BoolVal(True), z3.BoolVal(False)
    o_occ = [T if lay[t][0] else F for t in range(NQ)]
    o_cont = [T if lay[t][1] else F for t in range(NQ)]
    o_sh = [T if lay[t][2] else F for t in range(NQ)]
    o_rem = [yrem[slot_of[t][0]][slot_of[t][1]] if t in slot_of else bv(0) for t in range(NQ)]
    ny = sum(shape)
    world = {'locals': {'self': mk(occ, cont, sh, rem, total, bq), 'other': mk(o_occ, o_cont, o_sh, o_rem, bv(ny), bq)}}
    I.world = world
    pre = z3.And([z3.ULE(total, NQ)] + ycons)
    fn = I.find(r'quotientfilter::<impl.*>::union$')
    res = I.run(fn, [Ref((('local', world, 'self'), [])), Ref((('local', world, 'other'), []))], pre)
    out = {'paths': len(res), 'symex_s': round(time.time() - t0, 1), 'queries': 0, 'failed': [], 'witnesses': {}, 'cexs': {}, 'stat': dict(I.shared['stat'])}
    ubits = [[z3.Or(bits[q][r], ybits[q][r]) for r in range(NR)] for q in range(NQ)]
    utotal = z3.Sum([z3.If(ubits[q][r], bv(1), bv(0)) for q in range(NQ) for r in range(NR)])
    fits = z3.ULE(utotal, NQ)
    fam = {}

    def cex(mdl, tag):
        g = lambda e: mdl.eval(e, model_completion=True)
        return {'op': 'union', 'bq': bq, 'br': br, 'members': members_of(mdl, bits, NQ, NR),
                'other': [[q, g(v).as_long()] for q in range(NQ) for v in yrem[q]], 'shape': shape}
    for pc, kind, val, snap in res:
        out['queries'] += 1
        r0, m0 = solve([pre, pc], timeout_ms)
        if r0 == z3.unsat:
            fam['infeasible'] = fam.get('infeasible', 0) + 1
            continue
        if kind == 'panic':
            tag = 'panic:' + val[:50]
            if tag not in out['failed']:
                out['failed'].append(tag if r0 == z3.sat else 'UNKNOWN:' + tag)
                if r0 == z3.sat:
                    out['cexs'][tag] = cex(m0, tag)
            continue
        st = snap['self']
        ot = snap['other']
        okv = val.ok
        sim = z3.simplify(okv)
        key = 'ok' if z3.is_true(sim) else ('err' if z3.is_false(sim) else 'mixed')
        fam[key] = fam.get(key, 0) + 1
        nb = [[z3.If(okv, ubits[q][r], bits[q][r]) for r in range(NR)] for q in range(NQ)]
        e = enc_z3(nb, NQ, NR)
        checks = [('union_ok_iff_fits', okv == fits),
                  (('union_ok_len', 'union_err_len_unchanged'), st.fields[6] == z3.If(okv, utotal, total)),
                  (('union_ok_state_is_encoding_of_union', 'union_err_state_unchanged'), same_state(st, e, NQ)),
                  ('union_other_unchanged', z3.And([ot.fields[0].bits[t] == o_occ[t] for t in range(NQ)] + [ot.fields[1].bits[t] == o_cont[t] for t in range(NQ)] +
                                                   [ot.fields[2].bits[t] == o_sh[t] for t in range(NQ)] + [ot.fields[3].vals[t] == o_rem[t] for t in range(NQ)] + [ot.fields[6] == ny]))]
        run_checks(out, checks, pre, pc, okv, cex, timeout_ms)
    out['witnesses'] = fam
    out['wall_s'] = round(time.time() - t0, 1)
    return out


def run(fns, unit):
    tmo = unit.get('solver_timeout_ms', 900000)
    if unit['op'] == 'insert':
        return run_insert(fns, unit['bq'], unit['br'], tmo)
    if unit['op'] == 'union':
        return run_union(fns, unit['bq'], unit['br'], unit['shape'], tmo)
    return {'error': 'unknown qf unit'}


# --------------------------------------------------------------------------- translator validation
def eval_concrete_insert(fns, bq, br, members, y):
    """concrete member set + element through the encoding: unique feasible path, post-state from the model."""
    NQ, NR = 1 << bq, 1 << br
    I = QfInterp(fns, 1)
    I.element_bits = br
    I.shared = {'ctr': itertools.count(), 'draws': [], 'stat': {}}
    I.merge_diamonds = True
    mem = set(tuple(m) for m in members)
    bits = [[z3.BoolVal((q, r) in mem) for r in range(NR)] for q in range(NQ)]
    occ, cont, sh, rem = enc_z3(bits, NQ, NR)
    occ = [z3.simplify(x) for x in occ]
    cont = [z3.simplify(x) for x in cont]
    sh = [z3.simplify(x) for x in sh]
    rem = [z3.simplify(x) for x in rem]
    world = {'locals': {'self': mk(occ, cont, sh, rem, bv(len(mem)), bq)}}
    I.world = world
    fn = I.find(r'quotientfilter::<impl.*>::insert_internal$')
    res = I.run(fn, [Ref((('local', world, 'self'), [])), bv(y[0]), bv(y[1])], z3.BoolVal(True))
    found = []
    for pc, kind, val, snap in res:
        r, mdl = solve([pc], 60000)
        if r == z3.sat:
            found.append((kind, val, snap, mdl))
    if len(found) != 1:
        return {'error': 'expected one feasible path, got %d' % len(found)}
    kind, val, snap, mdl = found[0]
    if kind == 'panic':
        return {'result': 'panic'}
    g = lambda e: mdl.eval(e, model_completion=True)
    st = snap['self']
    okv = z3.is_true(g(val.ok))
    res_s = ('ok_true' if z3.is_true(g(val.payload)) else 'ok_false') if okv else 'err'
    slots = []
    for t in range(NQ):
        slots.append([z3.is_true(g(st.fields[0].bits[t])), z3.is_true(g(st.fields[1].bits[t])), z3.is_true(g(st.fields[2].bits[t])), g(st.fields[3].vals[t]).as_long()])
    return {'result': res_s, 'slots': slots, 'len': g(st.fields[6]).as_long()}


def random_case(rng, bq=2, br=2):
    NQ, NR = 1 << bq, 1 << br
    n = rng.randrange(0, NQ + 1)
    allfp = [(q, r) for q in range(NQ) for r in range(NR)]
    members = rng.sample(allfp, n)
    y = rng.choice(allfp)
    return {'op': 'insert', 'bq': bq, 'br': br, 'members': [list(m) for m in members], 'y': list(y)}
