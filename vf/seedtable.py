"""python3-vt -m vf.seedtable : markdown table of the seeded changes and which check caught them (from seeded/*/meta.json)."""
import json, os, glob
from .common import VERIF


def main():
    print("| seed | property | valid (suite passes, demo fails with / passes without) | detected by | tier | wall |")
    print("|---|---|---|---|---|---|")
    for d in sorted(glob.glob(os.path.join(VERIF, "seeded", "*"))):
        mp = os.path.join(d, "meta.json")
        if not os.path.exists(mp):
            print("| %s | ? | not evaluated yet | | | |" % os.path.basename(d))
            continue
        m = json.load(open(mp))
        det = []
        wall = 0
        for c, r in m.get("checks_run", {}).items():
            wall += r.get("wall_s", 0)
            for l in r.get("lines", []):
                if l.startswith("VIOLATION"):
                    unit = [x for x in l.split() if x.startswith("unit=")]
                    failed = [x for x in l.split() if x.startswith("failed=")]
                    det.append("%s %s (%s)" % (c, unit[0][5:] if unit else "", failed[0][7:][:60] if failed else ""))
        print("| %s | %s | %s | %s | %s | %ss |" % (m.get("id"), m.get("property"), "yes" if m.get("valid") else "NO", "<br>".join(det[:3]) if det else ("**not detected**" if m.get("valid") else "—"), m.get("tier"), wall))


if __name__ == "__main__":
    main()
