//! QuotientFilter: C13 (exact set over fingerprints, step vs. reference encoder),
//! C01/C12 (insert keeps members / failed insert changes nothing), C19, C11.
use crate::models::*;
use crate::vsrc::*;
use pdatastructs::filters::quotientfilter::QuotientFilter;
use pdatastructs::filters::Filter;

pub type F = QuotientFilter<H64, IdBH>;
pub type Slot = (bool, bool, bool, usize);

/// Reference encoder: the canonical slot layout of the set `mask` (bit q*NR+r set
/// <=> fingerprint (q,r) is a member).  Two laps over the quotients: lap one
/// finds how far the last cluster wraps around, lap two places the runs at
/// `max(q, first free slot)`; remainders ascend within a run.
pub fn enc<const NQ: usize, const NR: usize>(mask: u32) -> [Slot; NQ] {
    let mut count = [0usize; NQ];
    for q in 0..NQ {
        for r in 0..NR {
            if (mask >> (q * NR + r)) & 1 == 1 {
                count[q] += 1;
            }
        }
    }
    let mut slots = [(false, false, false, 0usize); NQ];
    let mut free = 0usize;
    for q in 0..NQ {
        let start = if free > q { free } else { q };
        free = start + count[q];
    }
    let mut free = if free > NQ { free - NQ } else { 0 };
    for q in 0..NQ {
        let start = if free > q { free } else { q };
        let mut pos = start;
        let mut first = true;
        for r in 0..NR {
            if (mask >> (q * NR + r)) & 1 == 1 {
                let s = pos % NQ;
                slots[s].1 = !first;
                slots[s].2 = pos != q;
                slots[s].3 = r;
                first = false;
                pos += 1;
            }
        }
        if count[q] > 0 {
            slots[q].0 = true;
        }
        if pos > free {
            free = pos;
        }
    }
    slots
}

pub fn build<const NQ: usize, const NR: usize>(bq: usize, br: usize, mask: u32) -> F {
    let mut f = F::with_params_and_hash(bq, br, IdBH);
    let e = enc::<NQ, NR>(mask);
    for i in 0..NQ {
        f.verif_set_slot(i, e[i].0, e[i].1, e[i].2, e[i].3);
    }
    f.verif_set_n(mask.count_ones() as usize);
    f
}

/// Arbitrary member set with at most NQ elements (the capacity).
pub fn any_set<const NQ: usize, const NR: usize>() -> u32 {
    let mask = any_u32();
    asm!(NQ * NR == 32 || mask < (1u32 << (NQ * NR)));
    asm!(mask.count_ones() as usize <= NQ);
    mask
}

pub fn same_state<const NQ: usize>(f: &F, e: &[Slot; NQ]) -> bool {
    let mut ok = true;
    for i in 0..NQ {
        let s = f.verif_slot(i);
        ok &= s.0 == e[i].0 && s.1 == e[i].1 && s.2 == e[i].2;
        if s.0 || s.1 || s.2 {
            ok &= s.3 == e[i].3;
        }
    }
    ok
}

/// fingerprint index (q*NR + r) of a hash value for (bq, br)
fn fp_of(h: u64, bq: usize, br: usize) -> usize {
    (h & ((1u64 << (bq + br)) - 1)) as usize
}

fn insert_vs_enc<const NQ: usize, const NR: usize>(bq: usize, br: usize) {
    let mask = any_set::<NQ, NR>();
    let mut f = build::<NQ, NR>(bq, br, mask);
    let blocks0 = f.verif_table_blocks();
    let h = any_u64();
    let y = fp_of(h, bq, br);
    let present = (mask >> y) & 1 == 1;
    let full = mask.count_ones() as usize == NQ;
    let r = f.insert(&H64(h));
    let mask2 = if r.is_ok() { mask | (1u32 << y) } else { mask };
    match r {
        Ok(b) => {
            chk!("insert_true_iff_new_class", b == !present);
            chk!("insert_ok_only_if_room_or_known", present || !full);
        }
        Err(_) => {
            chk!("full_error_only_for_new_class_at_capacity", !present && full);
        }
    }
    let e = enc::<NQ, NR>(mask2);
    // the Ok and the Err outcome carry different obligations (C13 exact-set semantics vs. C12 "failed insert changes nothing")
    let same = same_state::<NQ>(&f, &e);
    let len_ok = f.len() == mask2.count_ones() as usize;
    if r.is_ok() {
        chk!("post_state_is_canonical_encoding", same);
        chk!("len_is_number_of_classes", len_ok);
    } else {
        chk!("insert_err_state_unchanged", same);
        chk!("insert_err_len_unchanged", len_ok);
    }
    chk!("is_empty_iff_len_zero", f.is_empty() == (mask2 == 0));
    chk!("blocks_unchanged", f.verif_table_blocks() == blocks0 && f.verif_table_len() >= NQ);
    cov!("err_full", r.is_err());
    cov!("ok_new_into_nearly_full", matches!(r, Ok(true)) && mask.count_ones() as usize == NQ - 1);
    cov!("ok_known", matches!(r, Ok(false)));
}

fn query_vs_enc<const NQ: usize, const NR: usize>(bq: usize, br: usize) {
    let mask = any_set::<NQ, NR>();
    let f = build::<NQ, NR>(bq, br, mask);
    let h = any_u64();
    let y = fp_of(h, bq, br);
    let present = (mask >> y) & 1 == 1;
    chk!("query_iff_class_member", f.query(&H64(h)) == present);
    let (q, r) = f.verif_quotient_remainder(&H64(h));
    chk!("quotient_remainder_are_low_bits", q == y / NR && r == y % NR);
    cov!("present_in_full", present && mask.count_ones() as usize == NQ);
    cov!("absent_in_full", !present && mask.count_ones() as usize == NQ);
}

fn fresh_is_enc_empty<const NQ: usize, const NR: usize>(bq: usize, br: usize) {
    let f = F::with_params_and_hash(bq, br, IdBH);
    let e = enc::<NQ, NR>(0);
    chk!("new_is_canonical_empty", same_state::<NQ>(&f, &e));
    chk!("new_len_zero", f.len() == 0 && f.is_empty());
    chk!("new_cfg", f.bits_quotient() == bq && f.bits_remainder() == br && f.verif_table_len() >= NQ);
    let h = any_u64();
    chk!("new_query_false", !f.query(&H64(h)));
}

fn clear_clone<const NQ: usize, const NR: usize>(bq: usize, br: usize) {
    let mask = any_set::<NQ, NR>();
    let mut f = build::<NQ, NR>(bq, br, mask);
    let e = enc::<NQ, NR>(mask);
    let mut c = f.clone();
    chk!("clone_equal", same_state::<NQ>(&c, &e) && c.len() == f.len() && c.bits_quotient() == bq && c.bits_remainder() == br);
    // mutate the clone (raw slot write), the original must not move; then clear the original, the clone must not move
    c.verif_set_slot(0, true, false, false, NR - 1);
    chk!("orig_independent", same_state::<NQ>(&f, &e) && f.len() == mask.count_ones() as usize);
    let c = f.clone();
    f.clear();
    chk!("clone_independent", same_state::<NQ>(&c, &e) && c.len() == mask.count_ones() as usize);
    let fresh = F::with_params_and_hash(bq, br, IdBH);
    let e0 = enc::<NQ, NR>(0);
    chk!("clear_eq_fresh", same_state::<NQ>(&f, &e0) && same_state::<NQ>(&fresh, &e0));
    for i in 0..NQ {
        chk!("clear_remainders_zero", f.verif_slot(i).3 == 0);
    }
    chk!("clear_len_zero", f.len() == 0 && f.is_empty());
    chk!("clear_cfg_kept", f.bits_quotient() == bq && f.bits_remainder() == br);
    chk!("clear_blocks", f.verif_table_blocks() == fresh.verif_table_blocks() && f.verif_table_len() == fresh.verif_table_len());
    cov!("was_full", mask.count_ones() as usize == NQ);
}

/// C01 direct form: a member stays a member across insert(y), also when it fails.
fn member_stays<const NQ: usize, const NR: usize>(bq: usize, br: usize) {
    let mask = any_set::<NQ, NR>();
    let mut f = build::<NQ, NR>(bq, br, mask);
    let hx = any_u64();
    let x = fp_of(hx, bq, br);
    asm!((mask >> x) & 1 == 1);
    let hy = any_u64();
    let r = f.insert(&H64(hy));
    chk!("member_stays_member", f.query(&H64(hx)));
    if r.is_ok() {
        chk!("inserted_is_member", f.query(&H64(hy)));
    }
    cov!("insert_failed", r.is_err());
    cov!("insert_new_next_to_member", matches!(r, Ok(true)));
}

harness!(qf_fresh_q2r2, unwind 6, { fresh_is_enc_empty::<4, 4>(2, 2) });
harness!(qf_insert_vs_enc_q2r2, unwind 6, { insert_vs_enc::<4, 4>(2, 2) });
harness!(qf_query_vs_enc_q2r2, unwind 6, { query_vs_enc::<4, 4>(2, 2) });
harness!(qf_clear_clone_q2r2, unwind 35, { clear_clone::<4, 4>(2, 2) });
harness!(qf_member_stays_q2r2, unwind 6, { member_stays::<4, 4>(2, 2) });
harness!(qf_fresh_q1r2, unwind 6, { fresh_is_enc_empty::<2, 4>(1, 2) });
harness!(qf_insert_vs_enc_q1r2, unwind 6, { insert_vs_enc::<2, 4>(1, 2) });
harness!(qf_query_vs_enc_q1r2, unwind 6, { query_vs_enc::<2, 4>(1, 2) });
harness!(qf_clear_clone_q1r2, unwind 35, { clear_clone::<2, 4>(1, 2) });
harness!(qf_member_stays_q1r2, unwind 6, { member_stays::<2, 4>(1, 2) });
harness!(qf_insert_vs_enc_q1r1, unwind 6, { insert_vs_enc::<2, 2>(1, 1) });
harness!(qf_query_vs_enc_q1r1, unwind 6, { query_vs_enc::<2, 2>(1, 1) });

/// Union at (1,2): both operands arbitrary canonical states.
fn union_vs_enc<const NQ: usize, const NR: usize>(bq: usize, br: usize) {
    let ma = any_set::<NQ, NR>();
    let mb = any_set::<NQ, NR>();
    let mut a = build::<NQ, NR>(bq, br, ma);
    let b = build::<NQ, NR>(bq, br, mb);
    let blocks0 = a.verif_table_blocks();
    let r = a.union(&b);
    let mu = ma | mb;
    let fits = mu.count_ones() as usize <= NQ;
    chk!("union_ok_iff_fits", r.is_ok() == fits);
    let expect = if r.is_ok() { mu } else { ma };
    let same = same_state::<NQ>(&a, &enc::<NQ, NR>(expect));
    let len_ok = a.len() == expect.count_ones() as usize;
    if r.is_ok() {
        chk!("union_ok_state_is_encoding_of_union", same);
        chk!("union_ok_len", len_ok);
    } else {
        chk!("union_err_state_unchanged", same);
        chk!("union_err_len_unchanged", len_ok);
    }
    chk!("union_other_unchanged", same_state::<NQ>(&b, &enc::<NQ, NR>(mb)) && b.len() == mb.count_ones() as usize);
    chk!("union_blocks_unchanged", a.verif_table_blocks() == blocks0);
    cov!("union_err", r.is_err());
    cov!("union_ok_full", r.is_ok() && mu.count_ones() as usize == NQ && ma != mu && mb != mu);
}
harness!(qf_union_vs_enc_q1r2, unwind 6, { union_vs_enc::<2, 4>(1, 2) });
harness!(qf_union_vs_enc_q1r1, unwind 6, { union_vs_enc::<2, 2>(1, 1) });
