//! CuckooFilter on the compiled code with the real packed IntVector (cross-check of
//! engine M's insert step at (2,2,l=16), eviction bound 2 via feature `kicks2`),
//! clear/clone (C19), fingerprint/bucket kernels (C07).
use crate::models::*;
use crate::vsrc::*;
use pdatastructs::filters::cuckoofilter::CuckooFilter;
use pdatastructs::filters::Filter;

type F = CuckooFilter<Elem, SymRng, CkBH>;

fn count(f: &F, g: u64, i: usize) -> usize {
    let j = i ^ f.verif_bucket_of(g);
    let mut c = 0;
    if f.verif_slot(2 * i) == g {
        c += 1
    }
    if f.verif_slot(2 * i + 1) == g {
        c += 1
    }
    if j != i {
        if f.verif_slot(2 * j) == g {
            c += 1
        }
        if f.verif_slot(2 * j + 1) == g {
            c += 1
        }
    }
    c
}

/// Arbitrary valid 2x2 table with 16-bit fingerprints 1..4 (n_elements = non-zero slots).
fn arb(bh: CkBH) -> (F, [u64; 4], usize) {
    let mut f = F::with_params_and_hash(SymRng, 2, 2, 16, bh);
    let mut pre = [0u64; 4];
    let mut n = 0;
    for i in 0..4 {
        let v = any_u8();
        asm!(v <= 4);
        pre[i] = v as u64;
        f.verif_set_slot(i, v as u64);
        if v != 0 {
            n += 1;
        }
    }
    f.verif_set_n(n);
    (f, pre, n)
}

harness!(ck_insert_step_kani, unwind 5, wmul, {
    let bh = CkBH { tab: any_u64() };
    let (mut f, pre, n) = arb(bh);
    chk!("table_len_is_4", f.verif_table_len() == 4);
    let a = any_u8();
    asm!(a < 4);
    let x = Elem { a, b: any_u8() };
    let (fx, i1, _i2) = f.verif_start(&x);
    let g = any_u8();
    asm!(g >= 1 && g <= 4);
    let g = g as u64;
    let gi = any_usize();
    asm!(gi < 2);
    let c_pre = count(&f, g, gi);
    let same_class = g == fx && (gi == i1 || gi == (i1 ^ f.verif_bucket_of(fx)));
    let blocks0 = f.verif_table_blocks();
    let r = f.insert(&x);
    match r {
        Ok(b) => {
            chk!("insert_ok_len_plus_one", f.len() == n + 1);
            chk!("insert_ok_class_counts", count(&f, g, gi) == c_pre + (same_class as usize));
            chk!("insert_ok_reports_true", b);
            chk!("insert_ok_query_true", f.query(&x));
        }
        Err(_) => {
            chk!("insert_err_len_unchanged", f.len() == n);
            chk!("insert_err_class_counts_unchanged", count(&f, g, gi) == c_pre);
            chk!("insert_err_only_when_room_exhausted", n >= 2);
        }
    }
    let _ = pre;
    chk!("blocks_unchanged", f.verif_table_blocks() == blocks0);
    chk!("is_empty_iff_len_zero", f.is_empty() == (f.len() == 0));
    cov!("insert_err", r.is_err());
    cov!("insert_ok_after_kick", r.is_ok() && n == 3 && rng_calls() >= 1);
});

harness!(ck_delete_query_kani, unwind 5, {
    let bh = CkBH { tab: any_u64() };
    let (mut f, _pre, n) = arb(bh);
    let a = any_u8();
    asm!(a < 4);
    let x = Elem { a, b: any_u8() };
    let (fx, i1, _i2) = f.verif_start(&x);
    let g = any_u8();
    asm!(g >= 1 && g <= 4);
    let g = g as u64;
    let gi = any_usize();
    asm!(gi < 2);
    let c_pre = count(&f, g, gi);
    let cx_pre = count(&f, fx, i1);
    let same_class = g == fx && (gi == i1 || gi == (i1 ^ f.verif_bucket_of(fx)));
    let qx = f.query(&x);
    chk!("query_true_if_copy_stored", qx || cx_pre == 0);
    chk!("query_false_if_no_copy", !qx || cx_pre >= 1);
    let d = f.delete(&x);
    chk!("delete_true_iff_copy_stored", d == (cx_pre >= 1));
    chk!("delete_len", f.len() == n - (d as usize));
    chk!("delete_class_counts", count(&f, g, gi) == c_pre - ((d && same_class) as usize));
    cov!("deleted", d);
    cov!("absent", !d && n > 0);
});

harness!(ck_clear_clone, unwind 5, wmul, {
    let bh = CkBH { tab: any_u64() };
    let (mut f, pre, n) = arb(bh);
    let c = f.clone();
    let i = any_usize();
    asm!(i < 4);
    chk!("clone_equal", c.verif_slot(i) == pre[i] && c.len() == n && c.bucketsize() == 2 && c.n_buckets() == 2 && c.l_fingerprint() == 16);
    let x = Elem { a: any_u8() & 3, b: any_u8() };
    if any_bool() {
        let _ = f.insert(&x);
    } else {
        f.clear();
    }
    chk!("clone_independent", c.verif_slot(i) == pre[i] && c.len() == n);
    let mut c2 = f.clone();
    let (v, l) = (f.verif_slot(i), f.len());
    let _ = c2.delete(&x);
    chk!("orig_independent", f.verif_slot(i) == v && f.len() == l);
    f.clear();
    let fresh = F::with_params_and_hash(SymRng, 2, 2, 16, bh);
    chk!("clear_slot_zero", f.verif_slot(i) == 0 && fresh.verif_slot(i) == 0);
    chk!("clear_len_zero", f.len() == 0 && f.is_empty() && fresh.is_empty());
    chk!("clear_cfg", f.verif_table_len() == fresh.verif_table_len() && f.verif_table_blocks() == fresh.verif_table_blocks() && f.bucketsize() == 2 && f.n_buckets() == 2 && f.l_fingerprint() == 16);
    chk!("clear_query_false", !f.query(&x));
    cov!("was_nonempty", n > 0);
});

/// Kernel: fingerprint in [1, 2^l - 1] and bucket < n_buckets for every hash word, every l, n_buckets.
harness!(ck_fingerprint_kernel, unwind 3, {
    let l = any_usize();
    asm!(l >= 2 && l <= 64);
    let sh = any_u8();
    asm!(sh >= 1 && sh <= 20);
    let nb = 1usize << sh;
    let bh = CkBH { tab: any_u64() };
    let f = CuckooFilter::<H64x2, SymRng, CkBH>::with_params_and_hash(SymRng, 2, nb, l, bh);
    let x = H64x2(any_u64(), any_u64());
    let (fp, i1, i2) = f.verif_start(&x);
    chk!("fingerprint_nonzero", fp != 0);
    chk!("fingerprint_fits_l_bits", l == 64 || fp < (1u64 << l));
    chk!("buckets_in_range", i1 < nb && i2 < nb);
    chk!("alt_bucket_is_involution", (i2 ^ f.verif_bucket_of(fp)) == i1);
    cov!("l64_max", l == 64 && fp == u64::MAX);
    cov!("l2_fp3", l == 2 && fp == 3);
});

/// element carrying two full 64-bit hash words
#[derive(Clone, Copy)]
pub struct H64x2(pub u64, pub u64);
impl std::hash::Hash for H64x2 {
    fn hash<H: std::hash::Hasher>(&self, s: &mut H) {
        s.write_u64(self.0);
        s.write_u64(self.1);
    }
}
