"""Run one engine-M unit: python3-vt -m mir2smt.run <mir.txt> '<json unit>' -> JSON result on stdout."""
import json, sys, time, traceback


def main():
    mir_path, unit = sys.argv[1], json.loads(sys.argv[2])
    from . import core
    t0 = time.time()
    try:
        fns = core.parse_mir(open(mir_path).read())
        model = unit['model']
        if model == 'cuckoo':
            from . import m_cuckoo
            if unit['op'] == 'validate':
                import random
                rng = random.Random(unit.get('seed', 0))
                cases = [m_cuckoo.random_case(rng, rng.choice(['insert', 'insert', 'delete', 'query'])) for _ in range(unit.get('n', 24))]
                r = {'paths': 0, 'queries': 0, 'failed': [], 'witnesses': {}, 'cexs': {}, 'cases': []}
                for c in cases:
                    e = m_cuckoo.eval_concrete(fns, c)
                    r['queries'] += 1
                    r['cases'].append({'case': c, 'encoding': e})
            elif unit['op'] == 'union':
                r = m_cuckoo.run_union(fns, unit['bs'], unit['nb'], unit['kicks'], unit.get('b_mask'))
            else:
                r = m_cuckoo.run_single(fns, unit['op'], unit['bs'], unit['nb'], unit['kicks'])
        elif model in ('lossy', 'heap') and unit.get('op') == 'validate':
            import random
            from . import m_lossy, m_heap
            mod = m_lossy if model == 'lossy' else m_heap
            rng = random.Random(unit.get('seed', 0))
            r = {'paths': 0, 'queries': 0, 'failed': [], 'witnesses': {}, 'cexs': {}, 'cases': []}
            for _ in range(unit.get('n', 20)):
                c = mod.random_case(rng)
                r['cases'].append({'case': c, 'encoding': mod.eval_concrete_add(fns, c)})
                r['queries'] += 1
        elif model == 'lossy':
            from . import m_lossy
            r = m_lossy.run(fns, unit)
        elif model == 'heap':
            from . import m_heap
            r = m_heap.run(fns, unit)
        elif model == 'qf' and unit.get('op') == 'validate':
            import random
            from . import m_qf
            rng = random.Random(unit.get('seed', 0))
            r = {'paths': 0, 'queries': 0, 'failed': [], 'witnesses': {}, 'cexs': {}, 'cases': []}
            for _ in range(unit.get('n', 12)):
                c = m_qf.random_case(rng)
                r['cases'].append({'case': c, 'encoding': m_qf.eval_concrete_insert(fns, c['bq'], c['br'], c['members'], c['y'])})
                r['queries'] += 1
        elif model == 'qf':
            from . import m_qf
            r = m_qf.run(fns, unit)
        elif model == 'serde':
            from . import m_serde
            unit['_mir_path'] = mir_path
            r = m_serde.run(fns, unit)
        elif model == 'kernel':
            from . import m_kernels
            r = m_kernels.run(fns, unit)
        else:
            r = {'error': 'unknown model ' + model}
    except Exception as e:
        r = {'error': '%s: %s' % (type(e).__name__, e), 'trace': traceback.format_exc()[-3000:]}
    r['unit_wall_s'] = round(time.time() - t0, 1)
    r['solver_stats'] = {k: (round(v, 1) if isinstance(v, float) else v) for k, v in core.SOLVER_STATS.items()}
    print('\n@@RESULT@@' + json.dumps(r, default=str))


if __name__ == '__main__':
    # the interpreter recurses per basic block and per inlined callee: deep call chains (helpers extracted by a refactoring,
    # loops unrolled over a concrete structure) need more than CPython's default stack
    import threading
    sys.setrecursionlimit(200000)
    threading.stack_size(1 << 29)
    t = threading.Thread(target=main)
    t.start()
    t.join()
