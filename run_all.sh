#!/bin/bash
# run every claimed check once (sequentially), summarise exit codes; usage: run_all.sh [quick|thorough] [IDs...]
cd "$(dirname "$0")"
tier=${1:-quick}; shift
ids=${@:-$(python3 -c "import json;print(' '.join(c['property_id'] for c in json.load(open('MANIFEST.json'))['checks']))")}
mkdir -p .cache/logs
for id in $ids; do
  t0=$(date +%s)
  ./check $id --tier $tier > .cache/logs/$id-$tier.log 2>&1
  rc=$?
  echo "$id rc=$rc $(( $(date +%s) - t0 ))s $(tail -n 1 .cache/logs/$id-$tier.log | cut -c1-150)"
done
