//! Symbolic environment models: hashers whose output is carried by the element
//! (so "every BuildHasher" becomes "every value of these words") and an RNG
//! whose words are arbitrary.
#![allow(static_mut_refs)]

use crate::vsrc::*;
use rand::RngCore;
use std::hash::{BuildHasher, Hash, Hasher};

// ---------------------------------------------------------------------------
// IterBH: for `HashIterBuilder` users (Bloom, CountMinSketch).
//   h_i(obj, 0) -> elem.a, h_i(obj, 1) -> elem.b, setup_f(i) -> salt byte (i+2)&3
// ---------------------------------------------------------------------------
#[derive(Clone, Copy, PartialEq, Eq, Debug)]
pub struct IterBH {
    pub salt: u32,
}

pub struct IterHasher {
    salt: u32,
    iv: usize,
    nwrites: usize,
    a: u64,
    b: u64,
}

impl Hasher for IterHasher {
    fn finish(&self) -> u64 {
        if self.nwrites == 1 {
            ((self.salt >> (8 * (self.iv & 3))) & 0xff) as u64
        } else if self.iv == 0 {
            self.a
        } else {
            self.b
        }
    }
    fn write(&mut self, _bytes: &[u8]) {}
    fn write_usize(&mut self, i: usize) {
        if self.nwrites == 0 {
            self.iv = i;
        }
        self.nwrites += 1;
    }
    fn write_u64(&mut self, i: u64) {
        if self.nwrites == 1 {
            self.a = i
        } else {
            self.b = i
        };
        self.nwrites += 1;
    }
}

impl BuildHasher for IterBH {
    type Hasher = IterHasher;
    fn build_hasher(&self) -> IterHasher {
        IterHasher {
            salt: self.salt,
            iv: 0,
            nwrites: 0,
            a: 0,
            b: 0,
        }
    }
}

/// Element carrying its two hash words.
#[derive(Clone, Copy, PartialEq, Eq, Debug)]
pub struct Elem {
    pub a: u8,
    pub b: u8,
}

impl Hash for Elem {
    fn hash<H: Hasher>(&self, state: &mut H) {
        state.write_u64(self.a as u64);
        state.write_u64(self.b as u64);
    }
}

pub fn any_elem() -> Elem {
    Elem {
        a: any_u8(),
        b: any_u8(),
    }
}

pub fn any_iterbh() -> IterBH {
    IterBH { salt: any_u32() }
}

// ---------------------------------------------------------------------------
// IdBH: hash_one(H64(x)) == x
// ---------------------------------------------------------------------------
#[derive(Clone, Copy, PartialEq, Eq, Debug, Default)]
pub struct IdBH;

pub struct IdHasher(u64);

impl Hasher for IdHasher {
    fn finish(&self) -> u64 {
        self.0
    }
    fn write(&mut self, _b: &[u8]) {}
    fn write_u64(&mut self, i: u64) {
        self.0 = i;
    }
}

impl BuildHasher for IdBH {
    type Hasher = IdHasher;
    fn build_hasher(&self) -> IdHasher {
        IdHasher(0)
    }
}

#[derive(Clone, Copy, PartialEq, Eq, Debug)]
pub struct H64(pub u64);

impl Hash for H64 {
    fn hash<H: Hasher>(&self, s: &mut H) {
        s.write_u64(self.0)
    }
}

/// A second hasher that differs from `IdBH` only by a tag (for "equal hasher" checks).
#[derive(Clone, Copy, PartialEq, Eq, Debug)]
pub struct TagBH(pub u8);

impl BuildHasher for TagBH {
    type Hasher = IdHasher;
    fn build_hasher(&self) -> IdHasher {
        IdHasher(0)
    }
}

// ---------------------------------------------------------------------------
// CkBH: cuckoo filter. fingerprint word and bucket word carried by the element,
// hash(&fingerprint) = tab[f & 7] (arbitrary function on the fingerprints used).
// ---------------------------------------------------------------------------
#[derive(Clone, Copy, Debug, PartialEq, Eq)]
pub struct CkBH {
    pub tab: u64,
}

pub struct CkHasher {
    tab: u64,
    iv: usize,
    n: usize,
    w1: u64,
    w2: u64,
}

impl Hasher for CkHasher {
    fn finish(&self) -> u64 {
        if self.iv == 0 {
            self.w1
        } else if self.n == 3 {
            self.w2
        } else {
            (self.tab >> (8 * (self.w1 & 7))) & 0xff
        }
    }
    fn write(&mut self, _b: &[u8]) {}
    fn write_usize(&mut self, i: usize) {
        self.iv = i;
        self.n += 1;
    }
    fn write_u64(&mut self, i: u64) {
        if self.n == 1 {
            self.w1 = i
        } else {
            self.w2 = i
        };
        self.n += 1;
    }
}

impl BuildHasher for CkBH {
    type Hasher = CkHasher;
    fn build_hasher(&self) -> CkHasher {
        CkHasher {
            tab: self.tab,
            iv: 0,
            n: 0,
            w1: 0,
            w2: 0,
        }
    }
}

// ---------------------------------------------------------------------------
// RNG: every word arbitrary.  Integer `gen_range` goes through rand's
// `WideningMultiply::wmul`, which the Kani harnesses stub (see `stub_wmul`).
// ---------------------------------------------------------------------------
pub static mut RNG_CALLS: usize = 0;
pub static mut RNG_LAST_RANGE: usize = 0;
pub static mut RNG_LAST_DRAW: usize = 0;
pub static mut RNG_WORDS: usize = 0;
pub static mut RNG_LAST_U64: u64 = 0;
pub static mut RNG_U64_WORDS: usize = 0;

pub fn rng_reset() {
    unsafe {
        RNG_CALLS = 0;
        RNG_LAST_RANGE = 0;
        RNG_LAST_DRAW = 0;
        RNG_WORDS = 0;
        RNG_LAST_U64 = 0;
        RNG_U64_WORDS = 0;
    }
}
pub fn rng_calls() -> usize {
    unsafe { RNG_CALLS }
}
pub fn rng_last_range() -> usize {
    unsafe { RNG_LAST_RANGE }
}
pub fn rng_last_draw() -> usize {
    unsafe { RNG_LAST_DRAW }
}
pub fn rng_words() -> usize {
    unsafe { RNG_WORDS }
}
pub fn rng_last_u64() -> u64 {
    unsafe { RNG_LAST_U64 }
}
pub fn rng_u64_words() -> usize {
    unsafe { RNG_U64_WORDS }
}

#[derive(Clone, Copy, Debug)]
pub struct SymRng;

impl RngCore for SymRng {
    fn next_u32(&mut self) -> u32 {
        unsafe { RNG_WORDS += 1 };
        any_u32()
    }
    fn next_u64(&mut self) -> u64 {
        unsafe { RNG_WORDS += 1 };
        let v = any_u64();
        unsafe {
            RNG_LAST_U64 = v;
            RNG_U64_WORDS += 1;
        }
        #[cfg(not(kani))]
        {
            // A 16-byte record following the word is the (draw, range) pair the
            // Kani stub of `wmul` chose: synthesise the word for which rand's
            // real sampler returns exactly that draw.
            if native::peek_len() == 16 {
                let d = native::pop(16);
                let j = d as u64;
                let range = (d >> 64) as u64;
                unsafe {
                    RNG_CALLS += 1;
                    RNG_LAST_RANGE = range as usize;
                    RNG_LAST_DRAW = j as usize;
                }
                if range == 0 {
                    return v;
                }
                let num: u128 = (j as u128) << 64;
                let w = (num + (range as u128) - 1) / (range as u128);
                return w as u64;
            }
        }
        v
    }
    fn fill_bytes(&mut self, _d: &mut [u8]) {}
    fn try_fill_bytes(&mut self, _d: &mut [u8]) -> Result<(), rand::Error> {
        Ok(())
    }
}

/// Stub for `<usize as WideningMultiply>::wmul(v, range)`: returns `(j, 0)` for an
/// arbitrary `j < range`, which rand's rejection sampler accepts at once.
#[cfg(kani)]
pub fn stub_wmul(_v: usize, range: usize) -> (usize, usize) {
    let d: u128 = kani::any();
    let j = d as u64 as usize;
    let echo = (d >> 64) as u64 as usize;
    kani::assume(echo == range);
    kani::assume(j < range);
    unsafe {
        RNG_CALLS += 1;
        RNG_LAST_RANGE = range;
        RNG_LAST_DRAW = j;
    }
    (j, 0)
}

/// Environment record drawn by a float stub: 12 bytes, the first 8 are the f64
/// bit pattern.  The odd size lets the native replay driver skip these entries
/// (natively the real libm function runs and draws nothing).
#[cfg(kani)]
fn env_f64() -> f64 {
    let raw: [u8; 12] = kani::any();
    let b = [raw[0], raw[1], raw[2], raw[3], raw[4], raw[5], raw[6], raw[7]];
    f64::from_bits(u64::from_le_bytes(b))
}

/// The band [lo, hi] that contains ln x for a normal x > 0 (the same Pade-type bounds the `ln` stub is constrained by; plain
/// float arithmetic, so harnesses can state obligations relative to it under Kani and natively alike).
pub fn ln_band(x: f64) -> (f64, f64) {
    let bits = x.to_bits();
    let exp = ((bits >> 52) & 0x7ff) as i64;
    let e = (exp - 1023) as f64;
    let m = f64::from_bits((bits & ((1u64 << 52) - 1)) | (1023u64 << 52)); // [1, 2)
    let t = m - 1.0;
    let hi = e * std::f64::consts::LN_2 + t * (6.0 + t) / (6.0 + 4.0 * t);
    let lo = e * std::f64::consts::LN_2 + 2.0 * t / (2.0 + t);
    let slack = 1e-9 * (1.0 + if hi < 0.0 { -hi } else { hi });
    (lo - slack, hi + slack)
}

/// Sound over-approximation of `f64::ln` (replaces CBMC's loose built-in model). With x = m * 2^e, m in [1,2), t = m - 1:
///   e*ln2 + 2t/(2+t)  <=  ln x  <=  e*ln2 + t(6+t)/(6+4t)
/// with a 1e-9 absolute+relative slack for rounding; sign-correct; exact at 1 and 2. The band is at most 0.034 wide.
#[cfg(kani)]
pub fn stub_ln(x: f64) -> f64 {
    if x.is_nan() || x < 0.0 {
        return f64::NAN;
    }
    if x == 0.0 {
        return f64::NEG_INFINITY;
    }
    if x == f64::INFINITY {
        return f64::INFINITY;
    }
    if x == 1.0 {
        return 0.0;
    }
    if x == 2.0 {
        return std::f64::consts::LN_2;
    }
    let r = env_f64();
    kani::assume(r.is_finite());
    kani::assume(r >= -746.0 && r <= 710.0);
    let bits = x.to_bits();
    let exp = ((bits >> 52) & 0x7ff) as i64;
    if exp == 0 {
        // subnormal: only the coarse facts
        kani::assume(r < -708.0);
        return r;
    }
    let e = (exp - 1023) as f64;
    let m = f64::from_bits((bits & ((1u64 << 52) - 1)) | (1023u64 << 52)); // [1, 2)
    let t = m - 1.0;
    // Pade-type bounds, valid for t >= 0: 2t/(2+t) <= ln(1+t) <= t(6+t)/(6+4t)   (band <= 0.034 wide on [0,1))
    let hi = e * std::f64::consts::LN_2 + t * (6.0 + t) / (6.0 + 4.0 * t);
    let lo = e * std::f64::consts::LN_2 + 2.0 * t / (2.0 + t);
    let slack = 1e-9 * (1.0 + if hi < 0.0 { -hi } else { hi });
    kani::assume(r <= hi + slack);
    kani::assume(r >= lo - slack);
    // and the elementary bounds 1 - 1/x <= ln x <= x - 1, which are the tighter ones close to 1
    kani::assume(r <= (x - 1.0) + 1e-12);
    kani::assume(r >= (1.0 - 1.0 / x) - 1e-12);
    if x < 1.0 {
        kani::assume(r < 0.0);
    } else {
        kani::assume(r > 0.0);
    }
    r
}

/// Sound over-approximation of `f64::log2`: exact on powers of two in [2^-64, 2^64],
/// otherwise strictly between the neighbouring integer exponents.
#[cfg(kani)]
pub fn stub_log2(x: f64) -> f64 {
    if x.is_nan() || x < 0.0 {
        return f64::NAN;
    }
    if x == 0.0 {
        return f64::NEG_INFINITY;
    }
    if x == f64::INFINITY {
        return f64::INFINITY;
    }
    let r = env_f64();
    kani::assume(r.is_finite());
    kani::assume(r >= -1075.0 && r <= 1024.0);
    // bracket by the binary exponent: 2^e <= x < 2^(e+1)  =>  e <= log2 x < e+1
    let bits = x.to_bits();
    let exp = ((bits >> 52) & 0x7ff) as i64;
    let mant = bits & ((1u64 << 52) - 1);
    if exp != 0 {
        let e = (exp - 1023) as f64;
        if mant == 0 {
            kani::assume(r == e);
        } else {
            kani::assume(r > e && r < e + 1.0);
        }
    } else {
        kani::assume(r < -1022.0);
    }
    r
}
