"""Engine M: small loop-free bodies. compat_hashset: the six methods of `impl Filter<T> for HashSet<T,S>` against a
HashSet contract over 3 keys (present[k]): new/insert/contains/extend/iter/cloned/clear/len/is_empty as documented by std."""
import re, time
import z3
from . import core
from .core import *
from .m_cuckoo import CkInterp

K = 3


class SetV:
    def __init__(self, present):
        self.present = list(present)


_cv = core.copyval
def _copyval(v):
    if isinstance(v, SetV):
        return SetV(v.present)
    return _cv(v)
core.copyval = _copyval


class CompatInterp(CkInterp):
    def sel3(self, arr, key):
        e = arr[K - 1]
        for k in range(K - 2, -1, -1):
            e = z3.If(key == k, arr[k], e)
        return e

    def call(self, fr, fname, args):
        a = [self.operand(fr, x) for x in args]
        if fname == '<T as Clone>::clone':
            return self.read_ref(a[0]) if isinstance(a[0], Ref) else a[0]
        if fname == 'HashSet::<T, S>::insert':
            st = self.read_ref(a[0])
            was = self.sel3(st.present, a[1])
            self.write_ref(a[0], SetV([z3.Or(st.present[k], a[1] == k) for k in range(K)]))
            return z3.Not(was)
        if fname == 'HashSet::<T, S>::contains::<T>':
            st = self.read_ref(a[0])
            key = self.read_ref(a[1]) if isinstance(a[1], Ref) else a[1]
            return self.sel3(st.present, key)
        if fname == 'HashSet::<T, S>::iter':
            return Opaque('setiter', st=self.read_ref(a[0]))
        if 'as Iterator>::cloned' in fname:
            return a[0]
        if fname.startswith('<HashSet<T, S> as Extend<T>>::extend'):
            st = self.read_ref(a[0])
            other = a[1].st
            self.write_ref(a[0], SetV([z3.Or(st.present[k], other.present[k]) for k in range(K)]))
            return Opaque('unit')
        if fname == 'HashSet::<T, S>::clear':
            self.write_ref(a[0], SetV([z3.BoolVal(False)] * K))
            return Opaque('unit')
        if fname == 'HashSet::<T, S>::len':
            st = self.read_ref(a[0])
            return z3.Sum([z3.If(p, bv(1), bv(0)) for p in st.present])
        if fname == 'HashSet::<T, S>::is_empty':
            st = self.read_ref(a[0])
            return z3.Not(z3.Or(st.present))
        return CkInterp.call(self, fr, fname, args)


def run_compat(fns, timeout_ms):
    t0 = time.time()
    out = {'paths': 0, 'queries': 0, 'failed': [], 'witnesses': {}, 'cexs': {}}
    pa = [z3.Bool('a%d' % k) for k in range(K)]
    pb = [z3.Bool('b%d' % k) for k in range(K)]
    x = z3.BitVec('x', 64)
    pre = z3.ULT(x, K)

    def go(name, with_elem=False, with_other=False):
        I = CompatInterp(fns, 1)
        I.shared = {'ctr': None, 'draws': [], 'stat': {}}
        world = {'locals': {'self': SetV(pa), 'other': SetV(pb), 'x': x}}
        I.world = world
        argv = [Ref((('local', world, 'self'), []))]
        if with_elem:
            argv.append(Ref((('local', world, 'x'), [])))
        if with_other:
            argv.append(Ref((('local', world, 'other'), [])))
        fn = I.find(r'compat::<impl.*>::%s$' % name)
        res = I.run(fn, argv, z3.BoolVal(True))
        out['paths'] += len(res)
        rets = [(pc, val, snap) for pc, kind, val, snap in res if kind == 'ret']
        for pc, kind, val, snap in res:
            if kind == 'panic':
                out['queries'] += 1
                if solve([pre, pc], timeout_ms)[0] != z3.unsat:
                    out['failed'].append('panic:%s %s' % (name, val[:30]))
        return rets

    def need(tag, pc, post):
        out['queries'] += 1
        r, _ = solve([pre, pc, z3.Not(post)], timeout_ms)
        if r != z3.unsat and tag not in out['failed']:
            out['failed'].append(tag if r == z3.sat else 'UNKNOWN:' + tag)
            out['cexs'][tag] = {'op': tag}

    def selp(arr, key):
        e = arr[K - 1]
        for k in range(K - 2, -1, -1):
            e = z3.If(key == k, arr[k], e)
        return e
    for pc, val, snap in go('insert', with_elem=True):
        st = snap['self']
        need('insert_returns_ok_of_newly_inserted', pc, z3.And(val.ok, val.payload == z3.Not(selp(pa, x))))
        need('insert_adds_exactly_the_element', pc, z3.And([st.present[k] == z3.Or(pa[k], x == k) for k in range(K)]))
    for pc, val, snap in go('query', with_elem=True):
        need('query_is_contains', pc, val == selp(pa, x))
        need('query_is_pure', pc, z3.And([snap['self'].present[k] == pa[k] for k in range(K)]))
    for pc, val, snap in go('union', with_other=True):
        need('union_is_set_union', pc, z3.And([snap['self'].present[k] == z3.Or(pa[k], pb[k]) for k in range(K)]))
        need('union_other_unchanged', pc, z3.And([snap['other'].present[k] == pb[k] for k in range(K)]))
        need('union_ok', pc, val.ok if isinstance(val, ResultVal) else z3.BoolVal(True))
    for pc, val, snap in go('clear'):
        need('clear_empties', pc, z3.And([z3.Not(p) for p in snap['self'].present]))
    for pc, val, snap in go('len'):
        need('len_is_cardinality', pc, val == z3.Sum([z3.If(p, bv(1), bv(0)) for p in pa]))
    for pc, val, snap in go('is_empty'):
        need('is_empty_iff_no_element', pc, val == z3.Not(z3.Or(pa)))
    out['witnesses']['ret'] = 1
    out['wall_s'] = round(time.time() - t0, 1)
    return out


def run(fns, unit):
    if unit['kernel'] == 'compat_hashset':
        return run_compat(fns, unit.get('solver_timeout_ms', 60000))
    return {'error': 'unknown kernel'}
