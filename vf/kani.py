"""Engine K: run Kani harnesses of /verif/kani against /repo's current tree and classify results."""
import json, os, re, shutil, time
from .common import *

IGNORED_DESC = re.compile(r"^NaN on ")
UNWIND_DESC = re.compile(r"unwinding assertion")
UNSUPPORTED = re.compile(r"is not currently supported by Kani|unsupported_construct")


def prepare():
    """Per-run preparation: lock file from the repository, registry regenerated, harness crate mirrored if VERIF_REPO is set."""
    sh(["python3", os.path.join(VERIF, "gen_registry.py")])
    if KANI_CRATE != KANI_CRATE_SRC:
        os.makedirs(KANI_CRATE, exist_ok=True)
        sh(["rsync", "-a", "--delete", "--exclude", "target", KANI_CRATE_SRC + "/", KANI_CRATE + "/"])
        ct = os.path.join(KANI_CRATE, "Cargo.toml")
        txt = open(ct).read().replace('path = "/repo"', 'path = "%s"' % os.path.realpath(REPO))
        open(ct, "w").write(txt)
    lock = os.path.join(REPO, "Cargo.lock")
    if not os.path.exists(lock):
        lock = "/repo/Cargo.lock"
    if os.path.exists(lock):
        shutil.copyfile(lock, os.path.join(KANI_CRATE, "Cargo.lock"))


def parse_result_file(path):
    """Parse Kani 'regular' output of one harness."""
    txt = open(path, errors="replace").read()
    res = {"checks": 0, "success": 0, "failed": [], "undetermined": 0, "unreachable": 0,
           "covers": {}, "verdict": None, "time_s": None, "raw_path": path}
    for m in re.finditer(r"^Check \d+: (.+?)\n\s+- Status: (\w+)\n\s+- Description: \"(.*?)\"\n\s+- Location: (.*?)$",
                         txt, re.M | re.S):
        cid, status, desc, loc = m.group(1), m.group(2), m.group(3), m.group(4).strip()
        if ".cover." in cid:
            res["covers"][desc] = status
            continue
        res["checks"] += 1
        if status == "SUCCESS":
            res["success"] += 1
        elif status == "UNREACHABLE":
            res["unreachable"] += 1
        elif status == "UNDETERMINED":
            res["undetermined"] += 1
        elif status == "FAILURE":
            res["failed"].append({"id": cid, "desc": desc, "loc": loc})
    m = re.search(r"VERIFICATION:- (\w+)", txt)
    res["verdict"] = m.group(1) if m else None
    m = re.search(r"Verification Time: ([0-9.]+)s", txt)
    res["time_s"] = float(m.group(1)) if m else None
    if "CBMC failed" in txt or "Status: ERROR" in txt or "ran out of memory" in txt.lower() or "std::bad_alloc" in txt:
        res["error"] = "cbmc error / out of memory"
    if "CBMC timed out" in txt or re.search(r"^\s*(Verification )?[Tt]imed out", txt, re.M):
        res["error"] = "timeout"
    return res


def classify(res, harness_src_prefix="src/h_", must_cover=()):
    """-> (status, tags, notes). status in pass|fail|inconclusive."""
    if res is None:
        return "inconclusive", [], ["no result (timeout or crash before CBMC finished)"]
    if res.get("error"):
        return "inconclusive", [], [res["error"]]
    tags, notes, unwind, unsupported = [], [], False, False
    for f in res["failed"]:
        d = f["desc"]
        if IGNORED_DESC.search(d):
            continue
        if UNWIND_DESC.search(d) or ".unwind." in f["id"]:
            unwind = True
            continue
        if UNSUPPORTED.search(d) or "unsupported_construct" in f["id"]:
            unsupported = True
            notes.append("unsupported construct reachable: " + d[:80])
            continue
        if harness_src_prefix in f["loc"] and re.fullmatch(r"[a-z0-9_]+", d or ""):
            tags.append(d)
        else:
            tags.append("panic:" + d[:100])
    if unwind:
        return "inconclusive", tags, ["unwinding assertion failed: bound too small"]
    if unsupported:
        return "inconclusive", tags, notes
    # (Kani assumes an assertion after checking it, so witnesses behind a failing assertion are unreachable: required
    # witnesses are only judged when no assertion failed.)
    if not unwind and not unsupported and not tags:
        for t in must_cover:
            if res["covers"].get(t) == "UNSATISFIABLE":
                tags.append("unsat_cover:" + t)
    if tags:
        return "fail", sorted(set(tags)), notes
    if res["undetermined"]:
        return "inconclusive", [], ["%d checks UNDETERMINED" % res["undetermined"]]
    if res["verdict"] != "SUCCESSFUL":
        # only ignored classes failed (NaN checks): treat as pass iff nothing else failed
        if res["failed"] and all(IGNORED_DESC.search(f["desc"]) for f in res["failed"]):
            notes.append("ignored %d CBMC NaN checks" % len(res["failed"]))
        else:
            return "inconclusive", [], ["verdict %s without classified failure" % res["verdict"]]
    bad_cov = [t for t, s in res["covers"].items() if s != "SATISFIED"]
    if bad_cov:
        return "inconclusive", [], ["vacuity: cover witnesses not satisfied: " + ",".join(bad_cov)]
    return "pass", [], notes


def run_harnesses(check_id, harnesses, features=(), jobs=None, timeout_s=900, harness_timeout_s=None, mem_gb=20, tag="main", skip_tags=()):
    """harnesses: list of 'module::name'. Returns dict name -> parsed result (or None).
    skip_tags: obligations compiled out of the harnesses (VERIF_SKIP_TAGS, see chk! in vsrc.rs)."""
    prepare()
    td = os.path.join(CACHE, "kt-%s-%s%s" % (check_id, tag, CACHE_TAG))
    outdir = os.path.join(td, "result_output_dir")
    shutil.rmtree(outdir, ignore_errors=True)
    jobs = jobs or min(len(harnesses), NCPU)
    cmd = ["cargo", "kani", "--target-dir", td, "-Z", "stubbing", "-Z", "unstable-options",
           "-j", str(jobs), "--output-format", "terse", "--output-into-files", "--exact"]
    if features:
        cmd += ["--features", ",".join(features)]
    if harness_timeout_s:
        cmd += ["--harness-timeout", "%ds" % harness_timeout_s]
    for h in harnesses:
        cmd += ["--harness", h]
    env = dict(ENV)
    if skip_tags:
        env["VERIF_SKIP_TAGS"] = ",".join(sorted(skip_tags))
    else:
        env.pop("VERIF_SKIP_TAGS", None)
    rc, out, secs = sh(cmd, cwd=KANI_CRATE, timeout=timeout_s, mem_gb=mem_gb, env=env)
    results = {}
    for h in harnesses:
        p = os.path.join(outdir, h)
        results[h] = parse_result_file(p) if os.path.exists(p) else None
    meta = {"rc": rc, "wall_s": round(secs, 1), "cmd": " ".join(cmd), "tail": out[-3000:] if rc not in (0, 1) or not any(results.values()) else ""}
    if "error: could not compile" in out or "error[E" in out:
        meta["compile_error"] = True
        meta["tail"] = out[-6000:]
    return results, meta


def concrete_values(check_id, harness, features=(), timeout_s=1800, mem_gb=30, skip_tags=()):
    """Re-run one failing harness with concrete playback; return list of scripts (each list of byte lists)."""
    td = os.path.join(CACHE, "kt-%s-%s%s" % (check_id, "playback", CACHE_TAG))
    cmd = ["cargo", "kani", "--target-dir", td, "-Z", "stubbing", "-Z", "concrete-playback",
           "--concrete-playback=print", "--exact", "--harness", harness]
    if features:
        cmd += ["--features", ",".join(features)]
    env = dict(ENV)
    if skip_tags:
        env["VERIF_SKIP_TAGS"] = ",".join(sorted(skip_tags))
    else:
        env.pop("VERIF_SKIP_TAGS", None)
    rc, out, secs = sh(cmd, cwd=KANI_CRATE, timeout=timeout_s, mem_gb=mem_gb, env=env)
    scripts = []
    for m in re.finditer(r"let concrete_vals: Vec<Vec<u8>> = vec!\[(.*?)\n\s*\];", out, re.S):
        vals = []
        for line in m.group(1).splitlines():
            mm = re.search(r"vec!\[([0-9,\s]*)\]", line)
            if mm:
                vals.append([int(x) for x in mm.group(1).replace(" ", "").split(",") if x != ""])
        scripts.append(vals)
    return scripts, out[-4000:]


_built = {}


def build_replay(features=(), release=False):
    key = (tuple(features), release)
    if key in _built:
        return _built[key]
    td = os.path.join(CACHE, "native" + CACHE_TAG)
    cmd = ["cargo", "build", "--offline", "--target-dir", td, "--bin", "replay"]
    if release:
        cmd.append("--release")
    if features:
        cmd += ["--features", ",".join(features)]
    rc, out, _ = sh(cmd, cwd=KANI_CRATE, timeout=900)
    if rc != 0:
        raise RuntimeError("native build failed:\n" + out[-3000:])
    exe = os.path.join(td, "release" if release else "debug", "replay")
    # copy so that a later build with other features does not replace it
    dst = exe + "-" + ("rel" if release else "dev") + "-" + ("_".join(features) or "nofeat")
    shutil.copyfile(exe, dst)
    os.chmod(dst, 0o755)
    _built[key] = dst
    return dst


def native_replay(path, features=(), release=False):
    exe = build_replay(features, release)
    rc, out, _ = sh([exe, path], timeout=120)
    for line in out.splitlines():
        line = line.strip()
        if line.startswith("{"):
            try:
                return json.loads(line)
            except Exception:
                pass
    return {"error": "no output", "rc": rc, "raw": out[-500:]}


def native_random(short, features=(), trials=20000, seed=1):
    exe = build_replay(features, release=False)
    rc, out, _ = sh([exe, "--random", short, str(trials), str(seed)], timeout=600)
    for line in out.splitlines():
        if line.strip().startswith("{"):
            try:
                return json.loads(line)
            except Exception:
                pass
    return {"error": "no output", "raw": out[-300:]}


def write_replay(check_id, harness, script, extra=None, idx=0):
    os.makedirs(REPLAYS, exist_ok=True)
    short = harness.split("::")[-1]
    path = os.path.join(REPLAYS, "%s-%s%s.txt" % (check_id, short, "" if idx == 0 else "-%d" % idx))
    with open(path, "w") as f:
        f.write(short + "\n")
        if extra:
            for k, v in extra.items():
                f.write("# %s: %s\n" % (k, v))
        for v in script:
            f.write("".join("%02x" % b for b in v) + "\n")
    return path


def reproduced(nat):
    if not isinstance(nat, dict) or nat.get("error"):
        return False
    if nat.get("assume_failed") or nat.get("size_mismatch"):
        return False
    return bool(nat.get("failed")) or bool(nat.get("panic"))
