"""Engine M: the validation logic of HyperLogLog's Deserialize (visit_map) for EVERY b and EVERY register count.

The Kani harnesses of C20 drive the real visitor element by element, which limits them to <= 33 registers (b <= 5).
Here the MIR of visit_map is interpreted with a MapAccess contract: the document is a concrete sequence of fields
(any order, omissions, duplicates); `b` is a symbolic usize and the registers value is a vector of symbolic LENGTH
(contents irrelevant to the validation). Decided: Ok  =>  4 <= b <= 18 and len == 2^b and the fields are passed through;
valid complete document  =>  Ok (in particular b = 18 with 262144 registers); incomplete / duplicate documents => Err."""
import itertools, re, time
import z3
from . import core
from .core import *
from .m_cuckoo import CkInterp

FIELDS = {'registers': 0, 'b': 1, 'buildhasher': 2}


def parse_consts(text):
    """`const NAME: TY = { body }` blocks (promoted constants) parsed like functions."""
    out = {}
    cur = None
    bb = None
    for line in text.split('\n'):
        m = re.match(r'^const (.*promoted\[\d+\]): (.*) = \{$', line) or re.match(r'^const (.*?): (.*) = \{$', line)
        if m and not line.startswith(' '):
            cur = core.Fn(m.group(1), line)
            out[cur.name] = cur
            continue
        if cur is None:
            continue
        if line == '}':
            cur = None
            continue
        m = re.match(r'^    (bb\d+)(?: \(cleanup\))?: \{$', line)
        if m:
            bb = []
            cur.blocks[m.group(1)] = bb
            continue
        if re.match(r'^    \}$', line):
            bb = None
            continue
        if bb is not None and line.startswith('        '):
            bb.append(line.strip())
    return out


class SerdeInterp(CkInterp):
    consts_fns = {}

    def operand(self, fr, s):
        s = s.strip()
        m = re.match(r'^const (?:.*::)?(\w+)(?:::<[^\[]*>)?::promoted\[(\d+)\]$', s)
        if m:
            cands = [f for n, f in self.consts_fns.items() if n.endswith('%s::promoted[%s]' % (m.group(1), m.group(2)))]
            m = re.match(r'^()(\d+)$', m.group(2))
            assert len(cands) == 1, (s, list(self.consts_fns))
            sub = SerdeInterp(self.fns, 1)
            sub.consts_fns = self.consts_fns
            sub.shared = self.shared
            sub.world = {'locals': {}}
            res = sub.run(cands[0], [], z3.BoolVal(True))
            rets = [v for pc, kind, v, snap in res if kind == 'ret']
            assert len(rets) == 1
            return rets[0]
        if re.match(r'^const ZeroSized', s) or s.startswith('const "'):
            return Opaque('zst')
        return CkInterp.operand(self, fr, s)

    def rvalue(self, fr, s):
        s = s.strip()
        m = re.match(r'^std::option::Option::<.*>::Some\((.*)\)$', s)
        if m:
            return OptionVal(z3.BoolVal(True), self.operand(fr, m.group(1)))
        if re.match(r'^std::option::Option::<.*>::None$', s):
            return OptionVal(z3.BoolVal(False), bv(0))
        m = re.match(r'^PtrMetadata\((.*)\)$', s)
        if m:
            v = self.operand(fr, m.group(1))
            v = self.read_ref(v) if isinstance(v, Ref) else v
            if isinstance(v, Struct) and v.name == 'VecU8':
                return v.fields[0]     # length of the slice the reference points to
        m = re.match(r'^HyperLogLog::<T, B> \{(.*)\}$', s)
        if m:
            return Struct('HyperLogLog', [self.operand(fr, f.split(':', 1)[1]) for f in split_top(m.group(1))])
        m = re.match(r'^std::ops::Range(Inclusive)?::<usize> \{(.*)\}$', s)
        if m:
            return Struct('RangeInclusive' if m.group(1) else 'RangeX', [self.operand(fr, f.split(':', 1)[1]) for f in split_top(m.group(2))][:2])
        if s.startswith('discriminant('):
            v = self.load(fr, self.parse_place(s[13:-1]))
            if z3.is_expr(v) and z3.is_bv(v):
                return v
        return CkInterp.rvalue(self, fr, s)

    def call(self, fr, fname, args):
        a = [self.operand(fr, x) for x in args]
        sh = self.shared
        if '::next_key::<' in fname:
            doc = sh['doc']
            if sh['pos'] < len(doc):
                return ResultVal(z3.BoolVal(True), OptionVal(z3.BoolVal(True), bv(FIELDS[doc[sh['pos']]])))
            return ResultVal(z3.BoolVal(True), OptionVal(z3.BoolVal(False), bv(0)))
        if '::next_value::<' in fname:
            field = sh['doc'][sh['pos']]
            sh['pos'] += 1
            if fname.endswith('next_value::<Vec<u8>>'):
                assert field == 'registers', (field, fname)
                return ResultVal(z3.BoolVal(True), Struct('VecU8', [sh['len']]))
            if fname.endswith('next_value::<usize>'):
                assert field == 'b'
                return ResultVal(z3.BoolVal(True), sh['b'])
            assert field == 'buildhasher'
            return ResultVal(z3.BoolVal(True), Opaque('bh'))
        if ' as Try>::branch' in fname:
            return a[0]
        if 'as FromResidual<' in fname:
            return ResultVal(z3.BoolVal(False), Opaque('err'))
        if re.match(r'^std::option::Option::<.*>::is_some$', fname):
            o = self.read_ref(a[0]) if isinstance(a[0], Ref) else a[0]
            return o.some if z3.is_expr(o.some) else z3.BoolVal(o.some)
        if re.match(r'^std::option::Option::<.*>::ok_or_else::<', fname):
            o = a[0]
            return ResultVal(o.some if z3.is_expr(o.some) else z3.BoolVal(o.some), o.payload)
        if 'as serde::de::Error>::' in fname:
            return Opaque('err')
        if fname == 'std::ops::RangeInclusive::<usize>::new':
            return Struct('RangeInclusive', [a[0], a[1]])
        if re.match(r'^std::ops::RangeInclusive::<usize>::contains::<usize>$', fname) or re.match(r'^std::ops::Range::<usize>::contains::<usize>$', fname):
            r = self.read_ref(a[0]) if isinstance(a[0], Ref) else a[0]
            v = self.read_ref(a[1]) if isinstance(a[1], Ref) else a[1]
            lo, hi = r.fields[0], r.fields[1]
            if r.name == 'RangeInclusive':
                return z3.And(z3.ULE(lo, v), z3.ULE(v, hi))
            return z3.And(z3.ULE(lo, v), z3.ULT(v, hi))
        if re.match(r'^<Vec<u8> as (?:std::ops::)?Deref>::deref$', fname) or fname in ('Vec::<u8>::as_slice', '<Vec<u8> as AsRef<[u8]>>::as_ref'):
            return a[0]
        if fname in ('Vec::<u8>::is_empty', 'core::slice::<impl [u8]>::is_empty'):
            v = self.read_ref(a[0]) if isinstance(a[0], Ref) else a[0]
            return v.fields[0] == 0
        if fname == 'Vec::<u8>::len' or fname == 'core::slice::<impl [u8]>::len':
            v = self.read_ref(a[0]) if isinstance(a[0], Ref) else a[0]
            return v.fields[0]
        return CkInterp.call(self, fr, fname, args)


def run_doc(fns, consts, doc, timeout_ms):
    I = SerdeInterp(fns, 1)
    SerdeInterp.consts_fns = consts
    b = z3.BitVec('b', 64)
    ln = z3.BitVec('len', 64)
    I.shared = {'ctr': itertools.count(), 'draws': [], 'stat': {}, 'doc': doc, 'pos': 0, 'b': b, 'len': ln}
    I.world = {'locals': {}}
    fn = I.find(r'serde::<impl.*>::deserialize::<impl.*>::visit_map$')
    # the visitor consumes the map sequentially: `pos` is interpreter state shared by all paths, so fork points must
    # not interleave with it — visit_map only branches on the (concrete) document shape before the last next_key.
    res = I.run(fn, [Opaque('visitor'), Opaque('map')], z3.BoolVal(True))
    return I, res, b, ln


def run(fns, unit):
    t0 = time.time()
    tmo = unit.get('solver_timeout_ms', 60000)
    consts = parse_consts(open(unit['_mir_path']).read())
    out = {'paths': 0, 'queries': 0, 'failed': [], 'witnesses': {}, 'cexs': {}}
    names = ['registers', 'b', 'buildhasher']
    docs = [list(p) for p in itertools.permutations(names)]
    incomplete = [[], ['registers'], ['b', 'buildhasher'], ['registers', 'buildhasher'], ['registers', 'b']]
    dups = [['registers', 'registers', 'b'], ['b', 'b', 'registers'], ['buildhasher', 'registers', 'buildhasher'], ['registers', 'b', 'buildhasher', 'b']]

    def record(tag, mdl, doc, b, ln):
        if tag not in out['failed']:
            out['failed'].append(tag)
            out['cexs'][tag] = {'op': 'deserialize', 'doc': doc, 'b': mdl.eval(b, model_completion=True).as_long() if mdl else None,
                                'len': mdl.eval(ln, model_completion=True).as_long() if mdl else None}
    for doc in docs + incomplete + dups:
        complete = doc in docs
        I, res, b, ln = run_doc(fns, consts, doc, tmo)
        out['paths'] += len(res)
        pre = z3.ULE(ln, 1 << 40)
        valid = z3.And(z3.UGE(b, 4), z3.ULE(b, 18), ln == (bv(1) << b))
        for pc, kind, val, snap in res:
            out['queries'] += 1
            r0, m0 = solve([pre, pc], tmo)
            if r0 == z3.unsat:
                continue
            if kind == 'panic':
                record('panic:deserialize ' + val[:40], m0, doc, b, ln)
                continue
            okv = val.ok
            if complete:
                checks = [('accepted_implies_b_in_range_and_len_2_pow_b', z3.Implies(okv, valid)),
                          ('valid_document_is_accepted', z3.Implies(valid, okv))]
                if isinstance(val.payload, Struct):
                    checks.append(('accepted_fields_passed_through', z3.Implies(okv, z3.And(val.payload.fields[1] == b, val.payload.fields[0].fields[0] == ln))))
            else:
                checks = [('incomplete_or_duplicate_document_rejected', z3.Not(okv))]
            for tag, post in checks:
                out['queries'] += 1
                r, mdl = solve([pre, pc, z3.Not(post)], tmo)
                if r == z3.sat:
                    record(tag, mdl, doc, b, ln)
                elif r == z3.unknown:
                    out['failed'].append('UNKNOWN:' + tag)
            if complete and solve([pre, pc, okv, b == 18], tmo)[0] == z3.sat:
                out['witnesses']['accepts_b18'] = 1
            if complete and solve([pre, pc, okv, b == 4], tmo)[0] == z3.sat:
                out['witnesses']['accepts_b4'] = 1
            if complete and solve([pre, pc, z3.Not(okv), b == 19], tmo)[0] == z3.sat:
                out['witnesses']['rejects_b19'] = 1
            if complete and solve([pre, pc, z3.Not(okv), b == 3], tmo)[0] == z3.sat:
                out['witnesses']['rejects_b3'] = 1
    out['wall_s'] = round(time.time() - t0, 1)
    return out
