"""Property -> units (solver-decided obligations)."""

PROPS = {}


def K(harness, tier="quick", what="", bounds="", **kw):
    d = {"engine": "K", "harness": harness, "tier": tier, "what": what, "bounds": bounds}
    d.update(kw)
    return d


def M(name, tier="quick", what="", bounds="", **kw):
    d = {"engine": "M", "name": name, "tier": tier, "what": what, "bounds": bounds}
    d.update(kw)
    return d


def prop(pid, **kw):
    PROPS[pid] = kw
    kw.setdefault("units", [])
    return kw


def select(pid, tier, seed):
    """thorough: everything. quick: the quick units plus, for every rotation pool, the pool's mandatory units and
    `pool_pick` further ones chosen by VERIF_SEED (the seed rotates coverage, it never decides a property)."""
    import random
    us = PROPS[pid]["units"]
    if tier == "thorough":
        return list(us)
    out = [u for u in us if u["tier"] == "quick" and not u.get("pool")]
    pools = {}
    for u in us:
        if u.get("pool"):
            pools.setdefault(u["pool"], []).append(u)
    for name, members in pools.items():
        must = [u for u in members if u.get("pool_must")]
        rest = [u for u in members if not u.get("pool_must")]
        k = min(len(rest), members[0].get("pool_pick", 4))
        out += must + random.Random("%s-%s-%d" % (pid, name, seed)).sample(rest, k)
    return out


COMMON_K_ASSUME = [
    "Kani 0.68 / CBMC 6.11 / CaDiCaL decide each harness over all values of its symbolic inputs within the stated sizes; unwinding assertions enabled",
    "hashers are harness models whose output words are symbolic (carried by the element); SipHash itself is not executed",
    "pre-states are built through `verif` feature hooks from symbolic raw contents constrained by the stated representation invariant",
    "CBMC 'NaN on ...' float checks are ignored (producing NaN is not a failure in Rust)",
]

BLOOM_CFGS = [("m7k3", "quick"), ("m1k1", "quick"), ("m64k2", "quick"), ("m130k2", "thorough")]
CMS_CFGS = [("w3d2_u8", "quick"), ("w2d3_u8", "quick"), ("w1d1_u8", "quick"), ("w5d2_u8", "quick"), ("w3d1_u8", "quick"), ("w2d3_u64", "thorough"), ("w3d2_u16", "thorough"),
            ("w2d3_u32", "thorough"), ("w3d2_usize", "thorough"), ("w3d2_u64", "thorough")]

# --------------------------------------------------------------------------- C02
p = prop("C02",
         functions=["CountMinSketch::{with_params_and_hasher,add,add_n,query_point,merge,clear,is_empty}", "HashIterBuilder::{new,iter_for,setup_f,h_i}", "HashIter::next"],
         bounds={"quick": "(w,d) in {(3,2),(2,3),(1,1),(5,2),(3,1)}, counter u8, all cell values, all hash residues (h1,h2,f symbolic bytes), one step from any valid state",
                 "thorough": "adds u16,u32,u64,usize counters at (3,2)/(2,3) with full-width symbolic cells"},
         outside=["tables larger than 5x2 / 2x3", "counter overflow (checked_add panics) is assumed away: N+n <= C::MAX", "hash words wider than 8 bits (only h mod w is consumed)"],
         assumptions=COMMON_K_ASSUME + ["inductive invariant: every row sums to the stream total N, query_point(x) >= true(x)"])
for cfg, tier in CMS_CFGS:
    p["units"] += [
        K("h_cms::cms_add_" + cfg, tier, "one add_n from an arbitrary valid table: return value == query_point, true<=est<=N, row-sum invariant", cfg),
        K("h_cms::cms_add1_" + cfg, tier, "add == add_n(1)", cfg),
        K("h_cms::cms_merge_" + cfg, tier, "merge of two arbitrary valid tables: cell-wise sum, bounds carried over", cfg),
        K("h_cms::cms_clear_clone_" + cfg, tier, "clear resets to the zero table (history restarts)", cfg),
    ]

# --------------------------------------------------------------------------- C17
p = prop("C17",
         functions=["HyperLogLog::{with_hash,with_registers_and_hash,add,add_hashed,registers,merge,clear,is_empty,b,m}"],
         bounds="b = 4 (16 registers, arbitrary u8 contents), full 64-bit symbolic hash values; one step from any register vector",
         outside=["precisions b = 5..18 in the Kani harnesses (engine M covers add_hashed for all b)", "count() accuracy (C03)"],
         assumptions=COMMON_K_ASSUME + ["every register vector of length 2^b is a valid state (with_registers_and_hash accepts it)"])
p["units"] += [
    K("h_hll::hll_add_hashed_b4", "quick", "add_hashed(h): only register h&15 changes, to max(old, rank(h)); rank by independent bit-scan spec"),
    K("h_hll::hll_add_is_add_hashed_b4", "quick", "add(x) == add_hashed(hash_one(x))"),
    K("h_hll::hll_order_idempotence_b4", "quick", "two arbitrary hashes: order and repetition do not matter"),
    K("h_hll::hll_reconstruct_b4", "quick", "with_registers_and_hash(b, registers().to_vec(), hasher) == original"),
]
# --------------------------------------------------------------------------- C18
p = prop("C18",
         functions=["ReservoirSampling::{new,add,reservoir,i,k,is_empty,clear}", "rand::Rng::gen_range (real sampler, wmul kernel stubbed)"],
         bounds="k in {1,2,3}; i symbolic in [0, 2^20]; skip_until arbitrary <= 2^22; every RNG word arbitrary; one add from any valid state; plus 5 adds through the API at k=2",
         outside=["k > 3", "i > 2^20 (i+g far from overflow below that)", "ln/floor float path uses CBMC's approximations (only no-panic and slot structure asserted on it)"],
         assumptions=COMMON_K_ASSUME + ["RNG: every next_u32/next_u64 word arbitrary; <usize as WideningMultiply>::wmul stubbed to return (j,0) with arbitrary j<range (kills rand's rejection loop)",
                                        "state invariant: len = min(i,k), ids distinct and < i, prefix order while i <= k"])
p["units"] += [
    K("h_reservoir::reservoir_step_k1", "quick", "one add from any valid state, k=1"),
    K("h_reservoir::reservoir_step_k2", "quick", "one add from any valid state, k=2"),
    K("h_reservoir::reservoir_step_k3", "quick", "one add from any valid state, k=3"),
    K("h_reservoir::reservoir_fill_k1_i0", "quick", "fill phase, k=1, i=0"),
    K("h_reservoir::reservoir_fill_k3_i0", "quick", "fill phase, k=3, i=0"),
    K("h_reservoir::reservoir_fill_k3_i1", "quick", "fill phase, k=3, i=1"),
    K("h_reservoir::reservoir_fill_k3_i2", "quick", "fill phase, k=3, i=2"),
    K("h_reservoir::reservoir_api_prefix_k2", "quick", "new + 5 adds through the public API: prefix in order until the (k+1)-th add"),
]

# --------------------------------------------------------------------------- C11
p = prop("C11",
         functions=["helpers::all_zero_intvector", "CuckooFilter::with_params_and_hash", "QuotientFilter::with_params_and_hash", "BloomFilter::with_params_and_hash",
                    "CountMinSketch::with_params_and_hasher", "HyperLogLog::with_hash"],
         bounds="cuckoo: l in [2,64], bucketsize in [2,8], n_buckets in {2..128}; QF: q in [1,10], r in [1,64-q]; Bloom m <= 4096; CMS w<=64,d<=8; HLL b<=10 (all symbolic)",
         outside=["TDigest centroid count O(delta) (float; same obstacle as C04)", "LossyCounter (exempt by the statement)"],
         assumptions=COMMON_K_ASSUME)
p["units"] += [
    K("h_mem::mem_cuckoo_alloc", "quick", "cuckoo table: blocks*64 in [slots*l, slots*l+64)"),
    K("h_mem::mem_qf_alloc", "quick", "QF remainder table: blocks*64 in [slots*r, slots*r+64)"),
    K("h_mem::mem_other_sizes", "quick", "Bloom words, CMS counters, HLL registers match the configuration"),
    K("h_mem::mem_cuckoo_clear", "quick", "cuckoo: clear() (also twice) keeps the block count and table length of a fresh table, widths 2,3,16,31,33,64", mem_class_gb=6, timeout_s=2400),
    K("h_mem::mem_qf_clear", "quick", "QF: clear() keeps the block count and table length, remainder widths 2,3,16,33,62", mem_class_gb=6, timeout_s=2400),
    K("h_cuckoo::ck_clear_clone", "quick", "cuckoo: clear() / clone keep the block count of a fresh table (no growth on the clear path)", features=["kicks2"], mem_class_gb=10, timeout_s=1200, mem_gb=24),
    K("h_qf::qf_clear_clone_q2r2", "quick", "QF: clear() keeps the block count of a fresh table", mem_class_gb=8, timeout_s=2400),
    K("h_cms::cms_add_w3d2_u8", "quick", "CMS: add_n keeps len and capacity"), K("h_cms::cms_merge_w3d2_u8", "quick", "CMS: merge keeps len, capacity bounded"),
    K("h_hll::hll_add_hashed_b4", "quick", "HLL: add keeps the register count"), K("h_hll::hll_merge_max_b4", "quick", "HLL: merge keeps the register count"),
    K("h_bloom::bloom_stable_m64k2", "quick", "Bloom: insert keeps m and the block count"), K("h_bloom::bloom_union_m64k2", "quick", "Bloom: union keeps m and the block count"),
    K("h_reservoir::reservoir_step_k3", "quick", "reservoir: len <= k, capacity unchanged once full"),
    K("h_tdigest::td_insert_step_c2b1", "quick", "TDigest: backlog length <= max_backlog_size after insert"),
    K("h_tdigest::td_insert_merges_backlog0", "quick", "TDigest: backlog 0 merges at once", mem_class_gb=10, timeout_s=2400, mem_gb=30),
    K("h_tdigest::td_insert_merges_backlog0_fuse", "quick", "TDigest: with K0 delta=1.1 the digest collapses into ONE centroid whatever the weights (smallest instance of the centroid-count bound)", mem_class_gb=10, timeout_s=2400, mem_gb=30),
    K("h_tdigest::td_scale_fn_sees_sample_count", "quick", "TDigest: the merge asks the scale function with n = number of inserts (any positive finite weight); K2/K3 derive the cluster-size limit, hence the centroid bound, from it", "n0 <= 60000, weight in (0, 1e6]", mem_class_gb=8, timeout_s=2400),
    M("ck_insert_bs2nb2k2", "quick", "cuckoo: insert (Ok and Err paths) never changes the table length (array contract: out-of-range writes are panic paths, all infeasible)", "bs2nb2k2", model="cuckoo", op="insert", bs=2, nb=2, kicks=2, need_witness=["ok", "err"]),
    M("heap_add_step", "quick", "CMSHeap: |tracked| <= k is part of the invariant preserved by add", "K=3, k<=2", model="heap", what_m="add", kmax=2, need_witness=["ret"]),
]

# --------------------------------------------------------------------------- C15
TD_ASSUME = COMMON_K_ASSUME + [
    "digests are built through TDigest::verif_from_parts from symbolic centroids: weights 1..4, integer means -8..8 (as f64) in non-decreasing order, min <= first mean, last mean <= max (every reachable digest satisfies this ordering invariant)",
    "tolerance 1e-9 on comparisons (arithmetic on these small integers is exact or off by a few ulps)",
    "dev profile: debug_assert!s of interpolate() are checked too",
]
p = prop("C15",
         functions=["TDigest::{quantile,cdf,min,max,count}", "TDigestInner::{quantile,cdf,interpolate,count,merge(early return)}"],
         bounds={"quick": "1 and 2 centroids, weights 1..4, means/min/max integers in -8..8, q on the 1/16 grid, x on the half-integer grid; plus interior interpolation between two singleton centroids at ARBITRARY finite f64 positions for q in {3/8, 4/8, 5/8}",
                 "thorough": "adds 3 centroids"},
         outside=["more than 3 centroids", "non-integer means / weights outside 1..4 (except the two-singleton arbitrary-f64 harness)", "scale functions (read path does not use them)"],
         assumptions=TD_ASSUME)
for n, tier in (("n1", "quick"), ("n2", "quick"), ("n3", "thorough")):
    p["units"] += [
        K("h_tdigest::td_quantile_ends_" + n, tier, "quantile(0)=min, quantile(1)=max", n, mem_class_gb=6),
        K("h_tdigest::td_quantile_monotone_" + n, tier, "quantile monotone on adjacent points of the 1/16 grid (hence on the grid), within [min,max]", n, mem_class_gb=6, timeout_s=1800),
        K("h_tdigest::td_cdf_shape_" + n, tier, "cdf monotone on adjacent half-integer points (hence on the grid), in [0,1], 0 below min, 1 from max", n, mem_class_gb=6, timeout_s=1800),
        K("h_tdigest::td_roundtrip_" + n, tier, "|cdf(quantile(q)) - q| <= w_max/S (strictly increasing means)", n, mem_class_gb=6, timeout_s=1800),
    ]
p["units"] += [K("h_tdigest::td_quantile_interior_any_f64", "quick", "interior interpolation between two singleton centroids at ARBITRARY finite f64 positions (any sign, up to f64::MAX apart): quantile finite, within [min,max] up to 2^-48 relative, monotone over q = 3/8, 4/8, 5/8", "2 centroids, any finite f64 means", mem_class_gb=8, timeout_s=1800,
                 must_cover=["means_straddle_zero_far_apart", "equal_means"]),
               K("h_tdigest::td_empty_reads", "quick", "empty digest: NaN / 0"),
               K("h_tdigest::td_repeatable_n1", "quick", "repeated reads return identical values and leave aggregates alone", "n1", mem_class_gb=6, timeout_s=1800),
               K("h_tdigest::td_repeatable_n2", "thorough", "repeated reads", "n2", mem_class_gb=6, timeout_s=3600)]
# --------------------------------------------------------------------------- C16
p = prop("C16",
         functions=["TDigest::{insert,insert_weighted,count,sum,mean,min,max,is_empty,n_centroids}", "TDigestInner::{insert_weighted,merge}", "Centroid::{fuse,mean}", "K0::{f,f_inv}"],
         bounds="states with <=2 centroids + <=2 backlog entries (hook-built), weights 0..4, integer values -8..8; K0 with delta 1.1 (total fusion) and 1000 (none); backlog sizes 0 and 10",
         outside=["merges of more than 2 inputs (a 2+1 merge exhausts 46 GB in CBMC; the harnesses exist in the crate but are not part of any tier)", "K1/K2/K3 are not executed themselves (asin is FFI, ln/exp approximated): they are covered by the arbitrary-answer scale function of td_insert_merges_backlog0_anyscale for the 1+1 merge; the n handed to them is checked in C19", "floating-point accumulation error on non-integer data"],
         assumptions=TD_ASSUME + ["aggregates are observed as raw totals over centroids+backlog through verif hooks, and through count()/sum()/mean() after the merge"])
p["units"] += [
    K("h_tdigest::td_insert_step_c0b0", "quick", "insert_weighted into the empty digest"),
    K("h_tdigest::td_clear_clone", "quick", "clear() on a digest with compressed centroids AND a backlog: parts, aggregates and is_empty as in a fresh digest ('since creation or clear')", mem_class_gb=8, timeout_s=2400),
    K("h_tdigest::td_insert_any_weight_c0", "quick", "insert_weighted with ANY finite weight >= 0 into the empty digest: positive weights are recorded exactly, min/max updated, not empty", "w any f64"),
    K("h_tdigest::td_insert_any_weight_c1", "quick", "same into a one-centroid digest", "w any f64"),
    K("h_tdigest::td_insert_any_value_w3", "quick", "insert_weighted(x, 3) with ANY finite x (|x| < 1e300) into the empty digest: min() == max() == x exactly (extremes are the inserted values, not values recomputed from sum/count)", "x any f64, w = 3",
      must_cover=["tiny_value", "non_integer_value"]),
    K("h_tdigest::td_insert_step_c2b1", "quick", "insert_weighted, 2 centroids + 1 backlog"),
    K("h_tdigest::td_insert_step_c1b2", "quick", "insert_weighted, 1 centroid + 2 backlog"),
    K("h_tdigest::td_merge_step_c1b1_fuse", "thorough", "merge step 1+1 read-triggered, delta=1.1: totals preserved, sorted, backlog emptied", mem_class_gb=40, timeout_s=3600, mem_gb=50),
    K("h_tdigest::td_merge_step_c1b1_keep", "thorough", "merge step 1+1 read-triggered, delta=1000", mem_class_gb=40, timeout_s=3600, mem_gb=50),
    K("h_tdigest::td_insert_merges_backlog0", "quick", "max_backlog_size=0, delta=1000: insert merges immediately, totals/min/max exact, no fusion", mem_class_gb=10, timeout_s=1800, mem_gb=30),
    K("h_tdigest::td_insert_merges_backlog0_fuse", "quick", "max_backlog_size=0, delta=1.1: insert merges and fuses, totals/min/max exact", mem_class_gb=10, timeout_s=1800, mem_gb=30),
    K("h_tdigest::td_insert_merges_backlog0_anyscale", "quick", "the same merge under a scale function whose f / f_inv return ARBITRARY non-NaN values (covers K0, K1, K2, K3 and any other ScaleFunction): aggregates exact, output sorted, both fuse and keep reachable", mem_class_gb=10, timeout_s=1800, mem_gb=30),
]

# --------------------------------------------------------------------------- C14
M_ASSUME = [
    "engine M: own symbolic interpreter over rustc's MIR dump (dev profile, overflow checks on) of /repo's current tree; z3 decides every path query; "
    "every arithmetic-overflow / index / unwrap panic path must be infeasible",
    "container contracts (trusted, validated natively on every run against the real crate): IntVector<u64> = array with range-checked get/set; Range/Vec/slice iterators = finite sequences; "
    "Rng::gen::<bool> / gen_range = fresh symbolic outcomes; CuckooFilter::hash(&fingerprint) = uninterpreted function into [0,n_buckets); start(x) = (f, i1, i1^h(f))",
    "MAX_NUM_KICKS (named constant in the MIR) is replaced by the stated eviction bound",
    "pre-state: arbitrary slot contents with n_elements = number of non-zero slots (every such table is reachable: an element with fingerprint g and bucket i produces slot value g in bucket i)",
    "every SMT counterexample is re-executed natively (real crate, l_fingerprint=64, scripted RNG, table-driven hasher) and reported only if the violated clause also fails there",
]
p = prop("C14", engine="mir2smt+kani",
         technique="symbolic execution of the crate's MIR into SMT (z3), one inductive step from an arbitrary valid table; Kani cross-check of the same step on the compiled code",
         functions=["CuckooFilter::{insert,delete,query,start(contract),insert_internal,write_to_bucket,has_in_bucket,remove_from_bucket,restore_state,len,is_empty}"],
         bounds={"quick": "(bucketsize,n_buckets)=(2,2): 4 slots with eviction chains <= 2 and <= 4, and (2,4): 8 slots / 4 buckets with chains <= 2; 64-bit symbolic slot contents/fingerprints, all hash functions, all RNG outcomes",
                 "thorough": "adds (2,4) and (4,2) [8 slots] and chains <= 6"},
         outside=["tables larger than 8 slots", "eviction chains longer than 6 (the relocation argument is per kick)", "the packed IntVector bit layout (Kani cross-check covers it at l=16, 4 slots)"],
         assumptions=M_ASSUME)
for (bs, nb, kicks, tier) in [(2, 2, 2, "quick"), (2, 2, 4, "quick"), (2, 4, 2, "quick"), (4, 2, 2, "thorough"), (2, 2, 6, "thorough")]:
    tag = "bs%dnb%dk%d" % (bs, nb, kicks)
    p["units"].append(M("ck_insert_" + tag, tier, "insert(x) from an arbitrary valid table: Ok => Ok(true), len+1, class count +1 (others unchanged); Err => len and all class counts unchanged; n<bucketsize => Ok",
                        tag, model="cuckoo", op="insert", bs=bs, nb=nb, kicks=kicks, need_witness=["ok", "err"], timeout_s=3600))
for (bs, nb, tier) in [(2, 2, "quick"), (2, 4, "thorough"), (4, 2, "thorough")]:
    tag = "bs%dnb%d" % (bs, nb)
    p["units"].append(M("ck_delete_" + tag, tier, "delete(x): true iff a copy of x's class is stored; removes exactly one copy of that class; len-1", tag, model="cuckoo", op="delete", bs=bs, nb=nb, kicks=2, need_witness=["ret"]))
    p["units"].append(M("ck_query_" + tag, tier, "query(y) iff count(class y) >= 1; pure", tag, model="cuckoo", op="query", bs=bs, nb=nb, kicks=2, need_witness=["ret"]))

# --------------------------------------------------------------------------- C13
QF_ASSUME = COMMON_K_ASSUME + [
    "pre-states are enc(X): the canonical slot layout of a symbolic member set X (reference encoder in the harness crate: two laps over the quotients, runs start at max(q, first free), remainders ascending); "
    "enc is validated natively against the real filter for every subset and several insertion orders (history independence) on every run",
    "hasher IdBH: hash_one(x) = x, x a full symbolic u64 (only the low q+r bits may matter)",
]
p = prop("C13", engine="kani",
         functions=["QuotientFilter::{with_params_and_hash,insert,insert_internal,scan,incr,decr,query,calc_quotient_remainder,len,is_empty,clear}", "ScanResult::{has_run,at_start_of_run}"],
         bounds={"quick": "(q,r)=(2,2): 4 slots, 16 fingerprint classes, every member set of <= 4 classes, every element (64-bit hash); one insert / query from every reachable state",
                 "thorough": "adds (1,2) and (1,1) with Kani and the engine-M cross-check of the (2,2) insert statement (the two engines must agree)"},
         outside=["more than 4 slots: an engine-M insert unit at 8 slots (3,1) did not finish within 2 h and is not part of any tier", "remainder widths > 2 bits in container harnesses (the quotient/remainder split is checked as a 64-bit kernel)"],
         assumptions=QF_ASSUME)
p["units"] += [
    K("h_qf::qf_fresh_q2r2", "quick", "new == enc(empty set)", "(2,2)"),
    K("h_qf::qf_insert_vs_enc_q2r2", "quick", "insert(y) on enc(X): Ok(true)/Ok(false)/Err(Full) exactly as specified, post-state == enc(X') , len == |X'|", "(2,2)", mem_class_gb=8, timeout_s=2400),
    K("h_qf::qf_query_vs_enc_q2r2", "quick", "query(y) on enc(X) <=> class(y) in X (presence and absence)", "(2,2)", mem_class_gb=8, timeout_s=2400),
    K("h_qf::qf_insert_vs_enc_q1r2", "thorough", "insert vs enc", "(1,2)", mem_class_gb=8, timeout_s=2400),
    K("h_qf::qf_query_vs_enc_q1r2", "thorough", "query vs enc", "(1,2)", mem_class_gb=8, timeout_s=2400),
    K("h_qf::qf_insert_vs_enc_q1r1", "thorough", "insert vs enc", "(1,1)", mem_class_gb=8, timeout_s=2400),
    K("h_qf::qf_query_vs_enc_q1r1", "thorough", "query vs enc", "(1,1)", mem_class_gb=8, timeout_s=2400),
]

# --------------------------------------------------------------------------- C12
p = prop("C12", engine="mir2smt+kani",
         technique="symbolic execution of the crate's MIR into SMT (z3): Err branches of insert/union from arbitrary valid tables; Kani for the quotient filter",
         functions=["CuckooFilter::{insert,union,insert_internal,write_to_bucket,restore_state}", "QuotientFilter::{insert,insert_internal,union}"],
         bounds={"quick": "cuckoo: 4 slots (2x2), insert: eviction chains <=2 and <=4; union of two arbitrary tables: all 16 occupancy patterns of `other`, chains <=1. QF: (2,2) insert from every reachable state, union at (1,2) and (1,1)",
                 "thorough": "adds 8-slot cuckoo inserts, chains <=6, union chains <=2"},
         outside=["cuckoo tables > 8 slots / union on > 4 slots", "QF union on 4 slots (engine M case split not built yet)"],
         assumptions=M_ASSUME + QF_ASSUME + ["observational comparison for the cuckoo filter: len, and for an arbitrary class c the number of stored copies (determines query and the number of possible deletes); raw equality to enc(X) for the quotient filter (sufficient, not necessary)"])
for (bs, nb, kicks, tier) in [(2, 2, 2, "quick"), (2, 2, 4, "quick"), (2, 4, 2, "quick"), (4, 2, 2, "thorough"), (2, 2, 6, "thorough")]:
    tag = "bs%dnb%dk%d" % (bs, nb, kicks)
    p["units"].append(M("ck_insert_" + tag, tier, "failed insert leaves len and every class count unchanged (Err paths; Ok paths checked too)", tag,
                        model="cuckoo", op="insert", bs=bs, nb=nb, kicks=kicks, need_witness=["ok", "err"], timeout_s=3600))
for pat in range(16):
    p["units"].append(M("ck_union_bs2nb2k1_b%x" % pat, "quick", "a.union(&b), b's occupied slots = pattern %s: Err => a observationally unchanged; Ok => counts add; b unchanged" % format(pat, "04b"),
                        "4+4 slots, <=1 kick", model="cuckoo", op="union", bs=2, nb=2, kicks=1, b_mask=pat, timeout_s=3600,
                        need_witness=(["err"] if bin(pat).count("1") >= 1 else ["ok"]), pool="cku", pool_pick=4, pool_must=(pat in (0xf, 0x6))))
for pat in range(16):
    p["units"].append(M("ck_union_bs2nb2k2_b%x" % pat, "thorough", "union, <=2 kicks, pattern %s" % format(pat, "04b"), "4+4 slots, <=2 kicks",
                        model="cuckoo", op="union", bs=2, nb=2, kicks=2, b_mask=pat, timeout_s=7200))
p["units"] += [
    K("h_qf::qf_insert_vs_enc_q2r2", "quick", "QF: failed insert (Err) leaves the raw state == enc(X), len unchanged", "(2,2)", mem_class_gb=8, timeout_s=2400),
    K("h_qf::qf_union_vs_enc_q1r2", "thorough", "QF union of two arbitrary canonical states (both fully symbolic): Err iff |X u Y| > 2^q, then state == enc(X), other untouched", "(1,2)", mem_class_gb=8, timeout_s=3600),
    K("h_qf::qf_union_vs_enc_q1r1", "thorough", "QF union", "(1,1)", mem_class_gb=8, timeout_s=3600),
]

# --------------------------------------------------------------------------- C09
MC_ASSUME = [
    "engine M: own symbolic interpreter over rustc's MIR dump (dev profile, overflow checks on) of /repo's current tree; z3 decides every path query; every arithmetic-overflow / unwrap panic path must be infeasible",
    "std containers are contracts over a key universe of 3 keys: HashMap = present[k]/val[k] with entry/get_mut/insert/remove/len/drain/filter/collect/iter/clear/new as documented; closures are interpreted from their own MIR per key",
    "every SMT counterexample is re-executed natively (pre-state built through verif hooks) and reported only if the violated clause also fails there",
]
p = prop("C09", engine="mir2smt",
         technique="symbolic execution of the crate's MIR into SMT (z3): inductive invariant (Manku-Motwani) over a HashMap contract, one add from any state; query thresholds as exact dyadic floats",
         functions=["LossyCounter::{with_width,add,add::{closure#0},query,query::{closure#0},clear,clone,n,width}"],
         bounds="key universe 3; 64-bit counters; n < 2^61, any width >= 1 (symbolic) for add; query: width in {1,2,4,8,16,32,64} (epsilon = 1/width exact), threshold a/64, n < 2^20",
         outside=["the table-size bound width*(H(ceil(n/width))+1) itself is a counting argument over whole histories; what is decided is the step invariant (B) it is derived from: after every add each tracked x has f+delta > floor(n/width) (the pruning rule applied in full at every window end). The arithmetic from (B) to the harmonic bound is Manku & Motwani's and is not re-proved",
                  "with_epsilon for epsilon that is not 1/width", "alphabets larger than 3 keys (the invariant is per key; interaction is only through n)"],
         assumptions=MC_ASSUME + ["Div/Rem by the symbolic width are uninterpreted functions + division lemma and its successor form (the latter discharged over mathematical integers (unbounded) and on all 8-bit words with real bvudiv/bvurem)",
                                  "ghost T[x] = true count of x; invariant (A): tracked x: f>=1, f<=T<=f+delta, delta<=ceil(n/w)-1; untracked x: T<=floor(n/w); sum T = n", "invariant (B): tracked x has f+delta > floor(n/w)"])
p["units"] += [
    M("lossy_add_step", "quick", "one add(y) from any state satisfying the invariants (A) and (B): n+1, returns true iff y untracked, (A) re-established, (B) re-established (table pruned in full: the size bound's premise); no panic", "K=3, 64-bit", model="lossy", what_m="add", need_witness=["ret", "pruned_at_window_end"], timeout_s=2400),
    M("lossy_new_clear_clone", "quick", "with_width(w) is the empty counter with epsilon=1/w (panics iff w=0); clear() resets to it; clone() equal", "K=3", model="lossy", what_m="new_clear_clone", need_witness=["ret", "clear_ret"]),
]
for w in (1, 2, 4, 16, 64):
    p["units"].append(M("lossy_query_w%d" % w, "quick" if w in (2, 16) else "thorough", "from the invariant: query(a/64) contains every x with T>=s*n and T>eps*n and no x with T<(s-eps)*n", "width=%d, n<2^20" % w,
                        model="lossy", what_m="query", width=w, need_witness=(["frequent_exists"] if w > 1 else []), timeout_s=2400, thresholds=([0, 1, 16, 31, 32, 33, 48, 63, 64] if w in (2, 16) else None)))
# --------------------------------------------------------------------------- C10
p = prop("C10", engine="mir2smt",
         technique="symbolic execution of the crate's MIR into SMT (z3): inductive top-k invariant over HashMap/BTreeSet/Rc contracts, sketch replaced by the C02 contract",
         functions=["CMSHeap::{add,iter(contract),is_empty,clear}", "TreeEntry::{clone}"],
         bounds="key universe 3; k in {1,2}; 64-bit counts < 2^60; sketch estimate any c with T'[y] <= c <= T'[y]+E (E symbolic)",
         outside=["k > 2 / more than 3 keys", "the sketch itself (C02 is assumed as a contract: proved modulo C02)", "BTreeSet ordering is the contract (n, obj) ascending, as TreeEntry::cmp defines"],
         assumptions=MC_ASSUME + ["BTreeSet<TreeEntry> = set with at most one entry per key (a second entry for a key is reported as a model limit and must be infeasible); iter().next() = minimum by (n, obj)",
                                  "Rc<T> = the value; CountMinSketch::add(y) returns any c with true'(y) <= c <= true'(y)+E",
                                  "dev-profile MIR: debug_assert! is checked (the test suite runs in this profile)"])
p["units"] += [
    M("heap_add_step", "quick", "one add(y) from any state satisfying the top-k invariant: no panic (incl. debug_assert), invariant re-established", "K=3, k<=2", model="heap", what_m="add", kmax=2, need_witness=["ret", "kicked_out_minimum", "first_seen_with_inflated_estimate"]),
    M("heap_consequences", "quick", "the statement's clauses follow from the invariant: |iter| = min(k, distinct seen), all added, missing x => k tracked with T >= T[x]-E", "K=3, k<=2", model="heap", what_m="consequences", kmax=2),
    M("heap_clear", "quick", "clear empties map, tree and sketch; is_empty iff nothing tracked", "K=3", model="heap", what_m="clear", need_witness=["ret"]),
]

# --------------------------------------------------------------------------- C20
p = prop("C20",
         functions=["<HyperLogLog as Deserialize>::deserialize (Field visitor, HyperLogLogVisitor::visit_map)", "<HyperLogLog as Serialize>::serialize", "HyperLogLog::{add_hashed,merge,clone,eq}"],
         engine="kani+mir2smt",
         bounds={"quick": "engine M: validation logic for every b and every register count (vector of symbolic length); Kani: 18 document shapes (all 6 field orders, omissions, duplicates, empty; register counts 0,1,15,16,17), in each b any u64 and every register any u8; round trip of every b=4 sketch",
                 "thorough": "adds register lengths {31,32,33}"},
         outside=["JSON/other text formats (serde_json is not encoded; the serde data model is the interface the crate is written against)", "b >= 6 accepted documents (2^b registers) — acceptance logic is identical, length relation is checked symbolically in b"],
         assumptions=COMMON_K_ASSUME + ["harness Deserializer/MapAccess/Serializer implement the serde data model; the error type discards messages (no formatting)"])
p["units"] += [
    K("h_serde::serde_deser_rbh_len16", "quick", "deserialize(document of this shape, any b, any register contents) is Err or satisfies 4<=b<=18 and len=2^b; then add/merge do not panic; valid documents are accepted", "rbh_len16", mem_class_gb=4, timeout_s=1800, must_cover=["accepted", "rejected_b_mismatch"]),
    K("h_serde::serde_deser_hbr_len16", "quick", "deserialize(document of this shape, any b, any register contents) is Err or satisfies 4<=b<=18 and len=2^b; then add/merge do not panic; valid documents are accepted", "hbr_len16", mem_class_gb=4, timeout_s=1800, must_cover=["accepted", "rejected_b_mismatch"]),
    K("h_serde::serde_deser_rbh_len0", "quick", "deserialize(document of this shape, any b, any register contents) is Err or satisfies 4<=b<=18 and len=2^b; then add/merge do not panic; valid documents are accepted", "rbh_len0", mem_class_gb=4, timeout_s=1800, must_cover=[]),
    K("h_serde::serde_deser_rbh_len1", "quick", "deserialize(document of this shape, any b, any register contents) is Err or satisfies 4<=b<=18 and len=2^b; then add/merge do not panic; valid documents are accepted", "rbh_len1", mem_class_gb=4, timeout_s=1800, must_cover=[]),
    K("h_serde::serde_deser_rbh_len15", "quick", "deserialize(document of this shape, any b, any register contents) is Err or satisfies 4<=b<=18 and len=2^b; then add/merge do not panic; valid documents are accepted", "rbh_len15", mem_class_gb=4, timeout_s=1800, must_cover=[]),
    K("h_serde::serde_deser_rbh_len17", "quick", "deserialize(document of this shape, any b, any register contents) is Err or satisfies 4<=b<=18 and len=2^b; then add/merge do not panic; valid documents are accepted", "rbh_len17", mem_class_gb=4, timeout_s=1800, must_cover=[]),
    K("h_serde::serde_deser_bhr_len17", "quick", "deserialize(document of this shape, any b, any register contents) is Err or satisfies 4<=b<=18 and len=2^b; then add/merge do not panic; valid documents are accepted", "bhr_len17", mem_class_gb=4, timeout_s=1800, must_cover=[]),
    K("h_serde::serde_deser_rhb_len16", "quick", "deserialize(document of this shape, any b, any register contents) is Err or satisfies 4<=b<=18 and len=2^b; then add/merge do not panic; valid documents are accepted", "rhb_len16", mem_class_gb=4, timeout_s=1800, must_cover=["accepted", "rejected_b_mismatch"]),
    K("h_serde::serde_deser_brh_len16", "quick", "deserialize(document of this shape, any b, any register contents) is Err or satisfies 4<=b<=18 and len=2^b; then add/merge do not panic; valid documents are accepted", "brh_len16", mem_class_gb=4, timeout_s=1800, must_cover=["accepted", "rejected_b_mismatch"]),
    K("h_serde::serde_deser_bhr_len16", "quick", "deserialize(document of this shape, any b, any register contents) is Err or satisfies 4<=b<=18 and len=2^b; then add/merge do not panic; valid documents are accepted", "bhr_len16", mem_class_gb=4, timeout_s=1800, must_cover=["accepted", "rejected_b_mismatch"]),
    K("h_serde::serde_deser_hrb_len16", "quick", "deserialize(document of this shape, any b, any register contents) is Err or satisfies 4<=b<=18 and len=2^b; then add/merge do not panic; valid documents are accepted", "hrb_len16", mem_class_gb=4, timeout_s=1800, must_cover=["accepted", "rejected_b_mismatch"]),
    K("h_serde::serde_deser_missing_bh", "quick", "deserialize(document of this shape, any b, any register contents) is Err or satisfies 4<=b<=18 and len=2^b; then add/merge do not panic; valid documents are accepted", "missing_bh", mem_class_gb=4, timeout_s=1800, must_cover=[]),
    K("h_serde::serde_deser_missing_b", "quick", "deserialize(document of this shape, any b, any register contents) is Err or satisfies 4<=b<=18 and len=2^b; then add/merge do not panic; valid documents are accepted", "missing_b", mem_class_gb=4, timeout_s=1800, must_cover=[]),
    K("h_serde::serde_deser_missing_regs", "quick", "deserialize(document of this shape, any b, any register contents) is Err or satisfies 4<=b<=18 and len=2^b; then add/merge do not panic; valid documents are accepted", "missing_regs", mem_class_gb=4, timeout_s=1800, must_cover=[]),
    K("h_serde::serde_deser_dup_regs", "quick", "deserialize(document of this shape, any b, any register contents) is Err or satisfies 4<=b<=18 and len=2^b; then add/merge do not panic; valid documents are accepted", "dup_regs", mem_class_gb=4, timeout_s=1800, must_cover=[]),
    K("h_serde::serde_deser_dup_b", "quick", "deserialize(document of this shape, any b, any register contents) is Err or satisfies 4<=b<=18 and len=2^b; then add/merge do not panic; valid documents are accepted", "dup_b", mem_class_gb=4, timeout_s=1800, must_cover=[]),
    K("h_serde::serde_deser_dup_bh", "quick", "deserialize(document of this shape, any b, any register contents) is Err or satisfies 4<=b<=18 and len=2^b; then add/merge do not panic; valid documents are accepted", "dup_bh", mem_class_gb=4, timeout_s=1800, must_cover=[]),
    K("h_serde::serde_deser_empty", "quick", "deserialize(document of this shape, any b, any register contents) is Err or satisfies 4<=b<=18 and len=2^b; then add/merge do not panic; valid documents are accepted", "empty", mem_class_gb=4, timeout_s=1800, must_cover=[]),
    K("h_serde::serde_deser_rbh_len32", "thorough", "same at 32 registers (accepting path: add/merge/clone over 32 registers)", "rbh_len32", mem_class_gb=40, timeout_s=5400, mem_gb=50),
    K("h_serde::serde_deser_rbh_len31", "thorough", "same at 32 registers", "rbh_len31", mem_class_gb=6, timeout_s=3000),
    K("h_serde::serde_deser_rbh_len33", "thorough", "same at 32 registers", "rbh_len33", mem_class_gb=6, timeout_s=3000),
    K("h_serde::serde_roundtrip_b4", "quick", "serialize -> deserialize gives an equal sketch with the same reaction to add", "b=4", mem_class_gb=6, timeout_s=3000),
    K("h_serde::serde_ser_fields_all_b", "quick", "Serialize for every precision b in 4..=18 (symbolic): three fields, `b` = the precision, all 2^b registers handed to the serializer (count recorded, contents not walked); with serde_validation_all_b_all_len this is the round trip's acceptance up to b = 18", "b symbolic 4..=18", mem_class_gb=6, timeout_s=2400, must_cover=[]),
    K("h_hll::hll_count_no_panic_b4", "quick", "count() returns for any register contents (b=4); the empty sketch counts 0", "b=4", mem_class_gb=10, timeout_s=3000),
    M("serde_validation_all_b_all_len", "quick", "engine M on the MIR of visit_map with a MapAccess contract: for all 6 field orders, EVERY b (u64) and EVERY register count: Ok => 4<=b<=18 and len=2^b, fields passed through; valid => Ok (incl. b=18); 9 incomplete/duplicate shapes => Err",
      "all b, all len", model="serde", need_witness=["accepts_b18", "accepts_b4", "rejects_b19", "rejects_b3"]),
]

# --------------------------------------------------------------------------- C01
p = prop("C01", engine="kani+mir2smt",
         technique="bounded model checking (Kani/CBMC) of one-step inductive harnesses for Bloom and the quotient filter; symbolic execution of the MIR into SMT (z3) for the cuckoo filter and the HashSet compat impl",
         functions=["BloomFilter::{insert,query,union}", "HashIterBuilder::iter_for / HashIter::next", "QuotientFilter::{insert,query,union,scan,insert_internal}",
                    "CuckooFilter::{insert,delete,query,union,insert_internal,write_to_bucket,remove_from_bucket,restore_state}", "<HashSet as Filter>::{insert,query,union,clear,len,is_empty}"],
         bounds={"quick": "Bloom (m,k) in {(7,3),(1,1),(64,2)} from arbitrary bit states; QF (2,2) from every reachable state (+ union at (1,2)); cuckoo 4 slots, chains <=2/<=4, union of arbitrary tables chains <=1; HashSet over 3 keys",
                 "thorough": "adds Bloom (130,2), QF (1,2),(1,1), cuckoo 8 slots / chains <=6 / union chains <=2"},
         outside=["tables larger than 8 slots (cuckoo) / 4 slots (QF)", "eviction chains longer than 6", "Bloom m > 130"],
         assumptions=COMMON_K_ASSUME + QF_ASSUME[-2:] + M_ASSUME[:5] + ["induction: (a) insert(x) makes query(x) true, (b) every later operation (successful or failed) keeps a present element present; clear() restarts"])
for cfg, tier in BLOOM_CFGS:
    p["units"] += [
        K("h_bloom::bloom_insert_query_" + cfg, tier, "Bloom: insert(x) then query(x), from an arbitrary bit state", cfg),
        K("h_bloom::bloom_stable_" + cfg, tier, "Bloom: a present element stays present across insert(y)", cfg),
        K("h_bloom::bloom_union_" + cfg, tier, "Bloom: after a.union(&b) every element present in a or b is present in a", cfg),
    ]
p["units"] += [
    K("h_qf::qf_member_stays_q2r2", "quick", "QF: a member stays a member across insert(y) (Ok or Err(Full)); an inserted element is a member", "(2,2)", mem_class_gb=8, timeout_s=2400),
    K("h_qf::qf_union_vs_enc_q1r2", "thorough", "QF: union Ok => state = enc(X u Y) (superset of both); Err => enc(X)", "(1,2)", mem_class_gb=8, timeout_s=3600),
    M("qf_union_q2r2_s0211", "quick", "QF union at 4 slots (other = wrapping three-run cluster): Ok => state = enc(X u Y), a superset of both; Err => enc(X)", "(2,2) shape [0,2,1,1]", model="qf", op="union", bq=2, br=2, shape=[0, 2, 1, 1], timeout_s=3600),
    M("qf_union_q2r2_s1111", "quick", "QF union at 4 slots (other = four singleton runs)", "(2,2) shape [1,1,1,1]", model="qf", op="union", bq=2, br=2, shape=[1, 1, 1, 1], timeout_s=3600),
    K("h_qf::qf_member_stays_q1r2", "thorough", "QF member stays", "(1,2)", mem_class_gb=8, timeout_s=2400),
]
for (bs, nb, kicks, tier) in [(2, 2, 2, "quick"), (2, 2, 4, "quick"), (2, 4, 2, "quick"), (2, 2, 6, "thorough")]:
    tag = "bs%dnb%dk%d" % (bs, nb, kicks)
    p["units"].append(M("ck_insert_" + tag, tier, "cuckoo: Ok(insert x) => a copy of class(x) is stored; every other class keeps its copies (Ok and Err)", tag,
                        model="cuckoo", op="insert", bs=bs, nb=nb, kicks=kicks, need_witness=["ok", "err"], timeout_s=3600))
p["units"].append(M("ck_delete_bs2nb2", "quick", "cuckoo: delete(y) removes one copy of class(y) only: x stays present if class differs or >= 2 copies", "bs2nb2", model="cuckoo", op="delete", bs=2, nb=2, kicks=2, need_witness=["ret"]))
p["units"].append(M("ck_query_bs2nb2", "quick", "cuckoo: query(x) iff a copy of class(x) is stored", "bs2nb2", model="cuckoo", op="query", bs=2, nb=2, kicks=2, need_witness=["ret"]))
for pat in (0x3, 0x5, 0x9, 0xf, 0x6, 0xa):
    p["units"].append(M("ck_union_bs2nb2k1_b%x" % pat, "quick" if pat in (0x3, 0xf) else "thorough", "cuckoo union: Ok => counts add (nothing lost); Err => unchanged", "4+4 slots, <=1 kick", model="cuckoo", op="union", bs=2, nb=2, kicks=1, b_mask=pat, timeout_s=3600))
p["units"].append(M("compat_hashset", "quick", "HashSet as Filter: query is contains, insert returns Ok(set.insert(clone)), union extends with every element of other, len/is_empty/clear delegate", "3 keys", model="kernel", kernel="compat_hashset"))

# --------------------------------------------------------------------------- C06
p = prop("C06", engine="kani+mir2smt",
         technique="bounded model checking (Kani/CBMC) of homomorphism lemmas on arbitrary states (Bloom, CMS, HLL, QF 2 slots); symbolic execution of the MIR into SMT for the cuckoo filter",
         functions=["BloomFilter::{union,insert}", "CountMinSketch::{merge,add_n}", "HyperLogLog::{merge,add_hashed}", "QuotientFilter::union", "CuckooFilter::union"],
         bounds={"quick": "Bloom (7,3),(1,1),(64,2); CMS (3,2),(2,3),(1,1) u8; HLL b=4; QF union at (2,2): self any reachable state, other = 6 of 70 shapes per run (all in thorough, where Kani also decides (1,2) and (1,1) with both operands fully symbolic); cuckoo union 4+4 slots chains <=1 (6 of 16 occupancy patterns of other per run, rotated by VERIF_SEED; all in thorough); QF union at (2,2) for 6 of 70 shapes of other per run (all in thorough)",
                 "thorough": "adds Bloom (130,2), CMS wider counters, QF (1,1), cuckoo chains <=2"},
         outside=["QF union on 4 slots", "cuckoo union on more than 4 slots"],
         assumptions=COMMON_K_ASSUME + QF_ASSUME[-2:] + M_ASSUME[:5] + ["algebraic decomposition: merge = cell-wise OR / sum / max and add = merge with the singleton structure, all observers are functions of the raw state => stream-equivalence, commutativity, associativity, idempotence"])
for cfg, tier in BLOOM_CFGS:
    p["units"] += [K("h_bloom::bloom_union_" + cfg, tier, "Bloom union = bitwise OR, other unchanged", cfg),
                   K("h_bloom::bloom_insert_or_" + cfg, tier, "Bloom insert(x) on any state = state | singleton(x)", cfg)]
for cfg, tier in CMS_CFGS:
    p["units"] += [K("h_cms::cms_merge_" + cfg, tier, "CMS merge = cell-wise sum, other unchanged", cfg),
                   K("h_cms::cms_singleton_" + cfg, tier, "CMS add_n on any table = table + add_n on the zero table", cfg)]
p["units"] += [
    K("h_hll::hll_merge_max_b4", "quick", "HLL merge = register-wise max; idempotent (twice / with itself); other unchanged"),
    K("h_hll::hll_merge_algebra_b4", "quick", "HLL merge commutative and associative on three arbitrary register vectors"),
    K("h_hll::hll_add_is_merge_singleton_b4", "quick", "HLL add_hashed = merge with the singleton sketch"),
    K("h_qf::qf_union_vs_enc_q1r2", "thorough", "QF union(enc X, enc Y), both fully symbolic: Ok iff |X u Y| <= 2^q, state = enc(X u Y) (set only => commutative, associative, idempotent), other untouched", "(1,2)", mem_class_gb=8, timeout_s=3600),
    K("h_qf::qf_union_vs_enc_q1r1", "thorough", "QF union at 2 slots / 4 classes, both operands fully symbolic", "(1,1)", mem_class_gb=8, timeout_s=3600),
]
for pat in range(16):
    p["units"].append(M("ck_union_bs2nb2k1_b%x" % pat, "quick", "cuckoo a.union(&b), b's occupancy pattern %s: Ok => len adds, every class count adds, b unchanged" % format(pat, "04b"),
                        "4+4 slots, <=1 kick", model="cuckoo", op="union", bs=2, nb=2, kicks=1, b_mask=pat, timeout_s=3600, need_witness=(["ok"] if pat == 0 else []),
                        pool="cku", pool_pick=4, pool_must=(pat in (0xf, 0x6))))
for pat in range(16):
    p["units"].append(M("ck_union_bs2nb2k2_b%x" % pat, "thorough", "cuckoo union, <=2 kicks, pattern %s" % format(pat, "04b"), "4+4 slots, <=2 kicks", model="cuckoo", op="union", bs=2, nb=2, kicks=2, b_mask=pat, timeout_s=7200))

# --------------------------------------------------------------------------- C19
p = prop("C19", engine="kani+mir2smt",
         functions=["clear/clone/is_empty of BloomFilter, CuckooFilter, QuotientFilter, CountMinSketch, HyperLogLog, TDigest, ReservoirSampling (Kani); LossyCounter, CMSHeap (engine M)"],
         bounds="per structure as in C01/C02/C13/C14/C15/C17/C18/C09/C10 (small tables, arbitrary contents)",
         outside=["TDigest with K1 (asin is an FFI call Kani cannot model); K2/K3 are covered through a probe ScaleFunction that records the n it is given"],
         assumptions=COMMON_K_ASSUME + MC_ASSUME[:2] + ["clear == fresh is checked on raw parts (then every continuation is identical given the same RNG stream; the RNG itself is deliberately not reset or compared)"])
p["units"] += [
    K("h_bloom::bloom_clear_clone_m7k3", "quick", "Bloom clear/clone"), K("h_bloom::bloom_clear_clone_m64k2", "quick", "Bloom clear/clone"),
    K("h_bloom::bloom_is_empty_m7k3", "quick", "Bloom is_empty iff no bit set"),
    K("h_cms::cms_clear_clone_w3d2_u8", "quick", "CMS clear/clone/is_empty"), K("h_cms::cms_clear_clone_w2d3_u8", "quick", "CMS clear/clone"),
    K("h_cms::cms_clear_clone_w5d2_u8", "quick", "CMS clear/clone on a wide, shallow table (w > d*d)"), K("h_cms::cms_clear_clone_w3d1_u8", "quick", "CMS clear/clone, single row"),
    K("h_hll::hll_clear_clone_b4", "quick", "HLL clear/clone/is_empty"),
    K("h_qf::qf_clear_clone_q2r2", "quick", "QF clear/clone", mem_class_gb=8, timeout_s=2400), K("h_qf::qf_fresh_q2r2", "quick", "QF new is empty"),
    K("h_cuckoo::ck_clear_clone", "quick", "cuckoo clear/clone", features=["kicks2"], mem_class_gb=10, timeout_s=1200, mem_gb=24),
    K("h_reservoir::reservoir_clear_clone_k1", "quick", "reservoir clone equal and independent"), K("h_reservoir::reservoir_clear_clone_k3", "quick", "reservoir clone equal and independent"),
    K("h_reservoir::reservoir_clear_fresh_k1", "quick", "reservoir clear == fresh (incl. skip counter); next add fills slot 0"), K("h_reservoir::reservoir_clear_fresh_k3", "quick", "reservoir clear == fresh"),
    K("h_tdigest::td_clear_clone", "quick", "TDigest clear/clone raw parts", mem_class_gb=8, timeout_s=2400),
    K("h_tdigest::td_clear_resets_n_for_scale_fn", "quick", "TDigest: after clear the scale function sees n as in a fresh digest", mem_class_gb=8, timeout_s=2400),
    K("h_tdigest::td_insert_step_c0b0", "quick", "TDigest is_empty / zero weight"),
    M("lossy_new_clear_clone", "quick", "LossyCounter clear == with_width state; clone equal", "K=3", model="lossy", what_m="new_clear_clone", need_witness=["ret", "clear_ret"]),
    M("heap_clear", "quick", "CMSHeap clear empties map, tree, sketch; is_empty", "K=3", model="heap", what_m="clear", need_witness=["ret"]),
    K("h_bloom::bloom_clear_clone_m1k1", "thorough", "Bloom clear/clone"), K("h_bloom::bloom_clear_clone_m130k2", "thorough", "Bloom clear/clone"),
    K("h_cms::cms_clear_clone_w2d3_u64", "thorough", "CMS clear/clone"), K("h_qf::qf_clear_clone_q1r2", "thorough", "QF clear/clone", mem_class_gb=8, timeout_s=2400),
]

# --------------------------------------------------------------------------- C05
p = prop("C05", engine="kani",
         technique="bounded model checking (Kani/CBMC) of the per-step sampling-law conditions that are equivalent to uniformity under the contract that rand's samplers are uniform on the requested range",
         functions=["ReservoirSampling::add (all three phases)", "rand::Rng::gen_range (real sampler; wmul kernel stubbed, requested range observed)"],
         bounds="k in {1,2,3}; reservoir phase and skipped items: i symbolic up to 2^20; accepted items in the skipping phase: (k,i) in {(1,4),(2,8),(2,21),(3,100)}; every RNG word arbitrary; ln replaced by a sound over-approximation",
         outside=["the size of the bias inherent in the documented gap-sampling approximation for n >> 4k (no reference law to compare with beyond the two robust gap implications)",
                  "a different-but-also-uniform sampling scheme would fail the structural conditions (accepted, see level_note)", "k > 3, i > 2^20"],
         assumptions=COMMON_K_ASSUME + ["rand 0.8 samplers are uniform on the range they are asked for (trusted); the requested range and the drawn value are observed through the wmul stub",
                                        "Algorithm R induction: if each step draws j uniformly from i+1 values and stores iff j<k in slot j, every position is kept with probability k/n; geometric-gap argument for the skipping phase",
                                        "f64::ln is stubbed by a sound over-approximation; the gap implications only use elementary bounds that hold for any libm"])
p["level_note_extra"] = "structural form of the property: uniformity itself is a probability over the RNG and is reduced to universally quantified per-step conditions"
for k in (1, 2, 3):
    p["units"].append(K("h_reservoir::c05_reservoir_phase_k%d" % k, "quick", "reservoir phase: one integer draw from exactly i+1 values; stored iff draw < k, in that slot", "k=%d" % k))
for k in (1, 3):
    p["units"].append(K("h_reservoir::c05_gap_skipped_k%d" % k, "quick", "skipping phase, item below skip_until: nothing changes, no randomness consumed", "k=%d, i symbolic" % k))
for nm in ("k1_i4", "k2_i8", "k2_i21", "k3_i100"):
    p["units"].append(K("h_reservoir::c05_gap_accepted_" + nm, "quick", "skipping phase, accepted item: slot drawn from k values; next gap is 0 / exactly 1 in the u bands where that holds for any libm", nm,
                        must_cover=["next_item_accepted", "band_gap_one", "band_gap_two_or_more"], timeout_s=1800))
for k in (1, 2):
    p["units"].append(K("h_reservoir::c05_switch_k%d" % k, "quick", "the item at the phase switch (i=4k) is not forced into the reservoir: both outcomes possible", "k=%d" % k,
                        must_cover=["switch_item_can_be_skipped", "switch_item_can_be_kept", "band_gap_two_after_switch"]))

# --------------------------------------------------------------------------- C07
p = prop("C07", engine="kani",
         technique="bounded model checking (Kani/CBMC) of the sizing arithmetic and of the fingerprint / quotient-remainder kernels with symbolic (n, p); ln/log2 replaced by sound over-approximations",
         functions=["BloomFilter::with_properties_and_hash", "CuckooFilter::{with_properties_and_hash_4,with_properties_and_hash_8,with_properties_and_hash_n,fingerprint,hash,start}", "QuotientFilter::calc_quotient_remainder"],
         bounds="Bloom: n in [1,16], p any f64 in [2^-8, 1); cuckoo: n in [1,1024], p any f64 in [2^-40, 1); fingerprint kernel: every l in [2,64], n_buckets 2..2^20, full 64-bit hash words; QF kernel: q in [1,7], every admissible r, full 64-bit hashes",
         outside=["PARTIAL CLAIM: the false-positive frequencies themselves and BloomFilter::len() accuracy are distributions over hasher seeds and probe elements — not decided by any check here",
                  "p < 2^-40 for the cuckoo constructors (l_fingerprint would exceed 64 and the constructor panics by design)", "Bloom n > 16 (m grows with n; the arithmetic is the same)"],
         assumptions=COMMON_K_ASSUME + ["f64::ln / f64::log2 are stubbed by sound over-approximations: log2 exact on powers of two and strictly between neighbouring integers otherwise; 1-1/x <= ln x <= x-1, ln 2 exact",
                                        "decided: usability (k>=1, m>=1, no panic on insert/query), cuckoo l in [2,64] with 2*bucketsize/2^l <= p < 2*bucketsize/2^(l-1), power-of-two n_buckets with capacity*load >= n, fingerprint in [1,2^l-1], bucket < n_buckets, quotient/remainder = split of the low q+r bits"])
p["units"] += [
    K("h_sizing::sizing_bloom_usable", "quick", "Bloom from (n,p): k>=1, m>=1; k within one of log2(1/p)", "n<=16, p>=2^-8", mem_class_gb=8, timeout_s=2400),
    K("h_sizing::sizing_bloom_rate", "quick", "Bloom from (n,p): m not below n ln(1/p)/ln(2)^2 (up to the ln band and truncation)", "n<=16, p = a/256", mem_class_gb=8, timeout_s=2400),
    K("h_sizing::sizing_bloom_len_estimate", "quick", "Bloom len() = -(m/k) ln(1 - X/m) within the ln band, for every bit pattern", "m=64, k in 1..=3, all 2^64-1 patterns", mem_class_gb=8, timeout_s=2400),
    K("h_sizing::sizing_cuckoo4_usable", "quick", "cuckoo_4 from (p,n): 2<=l<=64 matching the rate, power-of-two buckets, capacity for n at load 0.95", "n<=1024, p>=2^-40", mem_class_gb=8, timeout_s=2400),
    K("h_sizing::sizing_cuckoo8_usable", "quick", "cuckoo_8 from (p,n)", "n<=1024, p>=2^-40", mem_class_gb=8, timeout_s=2400),
    K("h_sizing::sizing_qf_quotient_remainder_kernel", "quick", "QF quotient/remainder = split of the low q+r hash bits", "q<=7, all r", mem_class_gb=6, timeout_s=2400),
    K("h_cuckoo::ck_fingerprint_kernel", "quick", "cuckoo fingerprint in [1, 2^l-1], buckets in range, alternate bucket is an involution", "l in [2,64], n_buckets <= 2^20", mem_class_gb=6, timeout_s=2400),
]


# --------------------------------------------------------------------------- engine-M quotient filter units
import itertools as _it


def _qf_shapes(nq=4, maxn=4):
    return [list(c) for c in _it.product(range(maxn + 1), repeat=nq) if sum(c) <= maxn]


QF_M_ASSUME = ["engine M on the MIR of QuotientFilter::{insert_internal,union,scan,incr,decr} and ScanResult::{has_run,at_start_of_run}: FixedBitSet = vector of Booleans, IntVector = array, VecDeque = finite sequence; "
               "self = enc(X) for a fully symbolic member set; for union the other operand is fixed to a shape (members per quotient, which fixes its metadata bits and union's own control flow) with symbolic remainders — all 70 shapes at 4 slots are enumerated in the thorough tier, the quick tier takes the wrapping three-run cluster plus VERIF_SEED-rotated ones"]
for pid_ in ("C06", "C12"):
    P_ = PROPS[pid_]
    P_["assumptions"] = P_["assumptions"] + QF_M_ASSUME
    for sh in _qf_shapes():
        name = "qf_union_q2r2_s" + "".join(map(str, sh))
        P_["units"].append(M(name, "quick", "QF union at 4 slots, other's shape %s: Ok iff |X u Y| <= 4, state = enc(X u Y) / unchanged on Err (failure at every transfer position is its own path), other untouched" % sh,
                             "(2,2) shape %s" % sh, model="qf", op="union", bq=2, br=2, shape=sh, timeout_s=3600, pool="qfu", pool_pick=4,
                             # always run: the wrapping three-run cluster; a cluster that STARTS in the last slot and wraps; two separate clusters
                             pool_must=(sh in ([0, 2, 1, 1], [0, 0, 0, 2], [1, 0, 1, 0]))))
P_ = PROPS["C13"]
P_["assumptions"] = P_["assumptions"] + QF_M_ASSUME
P_["units"] += [
    M("qf_insert_q2r2_m", "thorough", "engine M cross-check of the (2,2) insert statement (must agree with the Kani verdict)", "(2,2)", model="qf", op="insert", bq=2, br=2, timeout_s=3600, need_witness=["ret", "err_full", "ok_new_into_nearly_full"]),
]


# translator validation of the cuckoo encoding on every run of the properties that rest on it
for pid_ in ("C14", "C12", "C01", "C06"):
    PROPS[pid_]["units"].append(M("ck_translator_validation", "quick", "24 VERIF_SEED-driven concrete cases (state, element, hash function, RNG script) through the real crate and through the encoding: results and post-states must agree",
                                  "4 slots, 2 kicks", model="cuckoo", op="validate", bs=2, nb=2, kicks=2, n=24, need_witness=["cases_agree"]))

PROPS["C09"]["units"].append(M("lossy_translator_validation", "quick", "20 VERIF_SEED-driven concrete (state, key) cases through the real LossyCounter::add and through the encoding: return value, n and table must agree",
                               "K=3", model="lossy", op="validate", n=20, need_witness=["cases_agree"]))
PROPS["C10"]["units"].append(M("heap_translator_validation", "quick", "20 VERIF_SEED-driven concrete (state, key, sketch estimate) cases through the real CMSHeap::add and through the encoding: map and tree must agree",
                               "K=3", model="heap", op="validate", n=20, need_witness=["cases_agree"]))

# Kani cross-check of the cuckoo step on the compiled code with the real packed IntVector (l=16, 4 slots, eviction bound 2)
PROPS["C14"]["units"] += [
    K("h_cuckoo::ck_insert_step_kani", "thorough", "insert step on the compiled code (real IntVector bit packing): same clauses as the engine-M unit; the two verdicts must agree", "(2,2,l=16), 2 kicks", features=["kicks2"], mem_class_gb=20, timeout_s=3600, mem_gb=40),
    K("h_cuckoo::ck_delete_query_kani", "thorough", "delete/query on the compiled code", "(2,2,l=16)", features=["kicks2"], mem_class_gb=10, timeout_s=3600, mem_gb=30),
]

PROPS["C17"]["engine"] = "kani+mir2smt"
PROPS["C17"]["bounds"] = "Kani: b = 4 (16 registers, arbitrary u8 contents), full 64-bit symbolic hash values; engine M: add_hashed for EVERY precision b in 4..=18 with the register vector as an SMT array of length 2^b"
PROPS["C17"]["outside"] = ["count() accuracy (C03)", "order/repetition independence and reconstruction for b > 4 follow from the per-register max semantics decided for all b (not re-checked per b)"]
PROPS["C17"]["units"].append(M("hll_add_hashed_all_b", "quick", "engine M on the MIR of add_hashed, b symbolic in 4..=18, registers an array of length 2^b: index in range, no overflow/truncation, register j = max(old, rank) with an independent relational rank specification (no clz), all other registers unchanged",
                               "all b", model="kernel", kernel="hll_add_hashed_all_b", need_witness=["ret", "rank_max_at_b18", "rank_1_at_b4"]))

PROPS["C02"]["engine"] = "kani+mir2smt"
PROPS["C02"]["units"].append(M("hashiter_next_64bit", "quick", "engine M on the MIR of HashIter::next at full 64-bit width: for m <= 2^31, h1,h2,f(i) < m: no overflow / division by zero, Some iff i < k, position < m, i advances by one (hence exactly k positions); overflow is possible above the bound (witness)",
                               "m <= 2^31, any k, i", model="kernel", kernel="hashiter_next", need_witness=["ret", "overflow_possible_when_m_above_2_31"]))
PROPS["C02"]["outside"] = ["tables larger than 3x2 / 2x3 in the Kani step harnesses", "counter overflow (checked_add panics) is assumed away: N+n <= C::MAX", "more than 2^31 columns (HashIter::next can overflow u64 there — shown satisfiable by the engine-M kernel)"]
PROPS["C01"]["units"].append(M("hashiter_next_64bit", "quick", "HashIter::next (Bloom positions) at 64 bits: position < m, exactly k positions, no overflow for m <= 2^31", "m <= 2^31", model="kernel", kernel="hashiter_next", need_witness=["ret"]))

# the hasher-dependent leaves that engine M treats as contracts (fingerprint != 0 and < 2^l, bucket < n_buckets, alternate bucket an
# involution) are decided on the compiled code for every l and n_buckets by this Kani kernel: part of every property that rests on them
for pid_ in ("C14", "C01", "C12"):
    PROPS[pid_]["units"].append(K("h_cuckoo::ck_fingerprint_kernel", "quick", "cuckoo fingerprint in [1, 2^l-1], buckets in range, alternate bucket is an involution (discharges the contract engine M assumes for fingerprint()/hash())",
                                  "l in [2,64], n_buckets <= 2^20", mem_class_gb=6, timeout_s=2400))

for pid_ in ("C06", "C12", "C01"):
    PROPS[pid_]["units"].append(M("qf_translator_validation", "quick", "12 VERIF_SEED-driven concrete (member set, element) cases through the real QuotientFilter (state reached through the public API) and through the encoding started from enc(X): result, len and every slot must agree — validates the FixedBitSet / IntVector contracts AND the reference encoder",
                                  "(2,2)", model="qf", op="validate", n=12, need_witness=["cases_agree"]))


# --------------------------------------------------------------------------- obligation scope per property
# Several units are shared between properties (one harness states many tagged obligations about one step). A failed obligation
# counts for a property only if it is one of THAT property's obligations; the others are recorded in the evidence as
# `out_of_scope_failed` and decide nothing (they are decided under the property they belong to). Panics, unwinding failures,
# solver unknowns and required witnesses always count. ("allow", unit regex, tag regex): only matching tags count;
# ("deny", unit regex, tag regex): matching tags do not count. First matching unit rule wins.
_REPR = r"blocks_unchanged|m_unchanged|len_unchanged|capacity_\w+|merge_len_unchanged|merge_capacity_bounded|union_blocks_unchanged"
SCOPE = {
    "C01": [("allow", r"bloom_union_", r"union_superset"),
            ("allow", r"bloom_stable_", r"present_stays_present|bits_only_grow"),
            ("deny", r"^ck_|^qf_union|qf_union_vs_enc", r"insert_ok_reports_true|insert_ok_len_plus_one|insert_err_len_unchanged|insert_err_only_when_room_exhausted|"
             r"delete_true_iff_copy_stored|delete_len|query_is_pure|query_false_if_no_copy|invariant_n_is_nonzero_slots|union_ok_len_adds|union_err_len_unchanged|"
             r"union_ok_len|union_other_unchanged|union_blocks_unchanged|union_ok_iff_fits")],
    "C02": [("deny", r"cms_", _REPR + r"|merge_other_unchanged|merge_cellwise_sum|clone_\w+|orig_independent|clear_cell_zero|clear_eq_fresh|clear_is_empty|is_empty_iff_zero")],
    "C06": [("allow", r"bloom_union_", r"union_bit_is_or|other_unchanged|union_ok"),
            ("allow", r"cms_merge_", r"merge_cellwise_sum|merge_other_unchanged"),
            ("deny", r"hll_merge_", r"merge_len_unchanged"),
            ("allow", r"^ck_union", r"union_ok_\w+"),
            ("allow", r"^qf_union|qf_union_vs_enc", r"union_ok_\w+|union_other_unchanged")],
    "C11": [("allow", r"cms_|bloom_|hll_|reservoir_step", _REPR + r"|len_is_min_n_k|capacity_bounded"),
            ("allow", r"td_insert_step", r"backlog_bounded"),
            ("allow", r"td_scale_fn", r"scale_fn_\w+|backlog_bounded"),
            ("allow", r"td_insert_merges", r"\w*merged_at_once|total_fusion_at_delta_1_1|merge_output_not_longer|merge_empties_backlog"),
            ("allow", r"ck_clear_clone|qf_clear_clone", r"blocks_unchanged|clear_blocks|table_len_is_4|clear_cfg\w*"),
            ("allow", r"^ck_insert", r"$^")],
    "C12": [("allow", r"^ck_insert", r"insert_err_len_unchanged|insert_err_class_counts_unchanged"),
            ("allow", r"^ck_union", r"union_err_\w+"),
            ("allow", r"^qf_union|qf_union_vs_enc", r"union_err_\w+|union_other_unchanged"),
            ("allow", r"qf_insert_vs_enc", r"insert_err_\w+")],
    "C13": [("deny", r"qf_", _REPR)],
    "C14": [("deny", r"^ck_|h_cuckoo", _REPR)],
    "C16": [("allow", r"td_clear_clone", r"clear_\w+"),
            ("deny", r"td_", r"backlog_bounded|\w*merged_at_once|total_fusion_at_delta_1_1|merge_output_not_longer")],
    "C17": [("deny", r"hll_", r"$^")],
    "C18": [("deny", r"reservoir_step", r"capacity_\w+")],
    "C19": [("allow", r"cms_clear_clone|qf_clear_clone|ck_clear_clone", r"clone_\w+|orig_independent|clear_\w+|is_empty\w*"),
            ("allow", r"td_insert_step_c0b0", r"is_empty_iff_no_parts|not_empty_after_insert|zero_weight_changes_nothing")],
}
ALWAYS_IN_SCOPE = ("panic:", "UNKNOWN:", "MODEL", "unsat_cover:")


def in_scope(pid, unit, tag):
    import re
    if tag.startswith(ALWAYS_IN_SCOPE) or "never_panics" in tag:
        return True
    for kind, ure, tre in SCOPE.get(pid, ()):
        if re.search(ure, unit):
            hit = re.fullmatch(tre, tag) is not None
            return hit if kind == "allow" else not hit
    return True


def split_scope(pid, unit, tags):
    ins = [t for t in tags if in_scope(pid, unit, t)]
    return ins, [t for t in tags if t not in ins]
