"""check <ID> [--tier quick|thorough] — decide one property on /repo's current tree."""
import argparse, json, os, sys, time, traceback
from concurrent.futures import ThreadPoolExecutor
from .common import *
from . import kani as K
from . import props


def known_match(known, pid, key):
    for f in known:
        if f.get("property") == pid and f.get("status") == "known" and f.get("key") == key:
            return f
    return None


def run_kani_units(pid, tier, units, seed, ev, outcome):
    """units: list of K units. Fills ev/outcome."""
    by_feat = {}
    for u in units:
        by_feat.setdefault(tuple(u.get("features", ())), []).append(u)
    known = load_known()
    for feats, us in by_feat.items():
        names = [u["harness"] for u in us]
        tmo = max(u.get("timeout_s", 2400) for u in us)
        mem = max(u.get("mem_gb", 20) for u in us)
        jobs = min(len(names), max(1, min(NCPU, int(56 // max(1, max(u.get("mem_class_gb", 3) for u in us))))))
        log("[K] %s: %d harnesses, features=%s, jobs=%d" % (pid, len(names), list(feats), jobs))
        results, meta = K.run_harnesses(pid, names, feats, jobs=jobs, timeout_s=tmo + 120,
                                        harness_timeout_s=tmo, mem_gb=mem, tag=tier + ("-" + "_".join(feats) if feats else ""))
        ev["kani_runs"].append({k: meta[k] for k in ("rc", "wall_s", "cmd")})
        if meta.get("compile_error"):
            outcome["inconclusive"].append("kani build failed: " + meta["tail"][-1500:])
            continue
        for u in us:
            h = u["harness"]
            res = results.get(h)
            status, tags, notes = K.classify(res, must_cover=u.get("must_cover", ()))
            tags, other = props.split_scope(pid, h, tags)
            rounds = 0
            while status == "fail" and other and not tags and rounds < 4:
                # only obligations of OTHER properties failed. Kani assumes an assertion after checking it, so they may hide
                # this property's own obligations: re-decide the harness with those obligations compiled out.
                rounds += 1
                skipped = sorted(set(u.get("_skipped", [])) | set(other))
                u["_skipped"] = skipped
                log("[K] %s: only out-of-scope obligations failed (%s); re-deciding without them" % (h, ",".join(other)))
                r2, m2 = K.run_harnesses(pid, [h], feats, jobs=1, timeout_s=u.get("timeout_s", 2400) + 120, harness_timeout_s=u.get("timeout_s", 2400),
                                         mem_gb=u.get("mem_gb", 20), tag="rescope" + ("-" + "_".join(feats) if feats else ""), skip_tags=skipped)
                ev["kani_runs"].append({k: m2[k] for k in ("rc", "wall_s", "cmd")})
                res = r2.get(h)
                status, tags, notes = K.classify(res, must_cover=u.get("must_cover", ()))
                tags, other = props.split_scope(pid, h, tags)
            if u.get("_skipped"):
                notes = list(notes) + ["failed obligations of other properties (compiled out and not counted here): " + ",".join(u["_skipped"])]
                other = u["_skipped"]
            if other and status == "fail" and not tags:
                status = "inconclusive"
                notes = list(notes) + ["out-of-scope obligations keep failing after 4 rounds"]
            rec = {"engine": "K", "unit": h, "status": status, "what": u.get("what", ""), "bounds": u.get("bounds", ""),
                   "checks": res["checks"] if res else 0, "discharged": res["success"] + res["unreachable"] if res else 0,
                   "covers": res["covers"] if res else {}, "solver_time_s": res["time_s"] if res else None,
                   "notes": notes, "failed_tags": tags, "out_of_scope_failed": other}
            ev["units"].append(rec)
            if status == "pass":
                continue
            if status == "inconclusive":
                outcome["inconclusive"].append("%s: %s" % (h, "; ".join(notes)))
                continue
            # failure: replay natively before reporting
            handle_failure(pid, u, tags, feats, known, rec, outcome)


def handle_failure(pid, u, tags, feats, known, rec, outcome):
    h = u["harness"]
    short = h.split("::")[-1]
    cover_tags = [t for t in tags if t.startswith("unsat_cover:")]
    if cover_tags:
        # the solver proved that NO input reaches a witness the property requires to be reachable (e.g. "the item at
        # the phase switch can be skipped"). There is no single counterexample to replay; the native driver samples the
        # harness and must agree that the witness never occurs.
        K.prepare()
        nat = K.native_random(short, feats, trials=20000, seed=int(os.environ.get("VERIF_SEED", "0") or 0) + 1)
        path = K.write_replay(pid, h, [], {"property": pid, "kani_failed": ",".join(cover_tags), "features": ",".join(feats), "mode": "random-sampling of the harness; the solver's UNSAT is the verdict",
                                           "replay_cmd": "kani/target replay --random %s 20000 <seed>" % short})
        rec["replays"] = [{"path": path, "random": nat}]
        new = []
        for t in cover_tags:
            tag = t.split(":", 1)[1]
            if nat.get("valid_trials", 0) >= 50 and nat.get("covers", {}).get(tag, 0) == 0:
                key = "%s::%s" % (short, t)
                kf = known_match(known, pid, key)
                if kf:
                    outcome["known"].append((kf, path))
                else:
                    new.append(t)
            else:
                outcome["inconclusive"].append("%s: cover %s UNSATISFIABLE in Kani but hit natively (%s)" % (h, tag, nat))
        if new:
            outcome["violations"].append({"unit": h, "tags": new, "replay": path})
        tags = [t for t in tags if not t.startswith("unsat_cover:")]
        if not tags:
            return
    # fast path for recorded findings: every failing tag is listed as known and its stored counterexample
    # (/verif/known_replays/<harness>.txt, committed) still fails natively on the current tree in the same way
    stored = os.path.join(VERIF, "known_replays", short + ".txt")
    if tags and all(known_match(known, pid, "%s::%s" % (short, t)) for t in tags) and os.path.exists(stored):
        K.prepare()
        nat = K.native_replay(stored, feats, release=False)
        got = set(nat.get("failed", [])) if isinstance(nat, dict) else set()
        if K.reproduced(nat) and all(t in got for t in tags):
            rec["replays"] = [{"path": stored, "dev": nat, "note": "stored counterexample of a known finding re-executed"}]
            for t in tags:
                outcome["known"].append((known_match(known, pid, "%s::%s" % (short, t)), stored))
            return
    log("[K] %s FAILED tags=%s -> concrete playback + native replay" % (h, tags))
    scripts, tail = K.concrete_values(pid, h, feats, skip_tags=u.get("_skipped", ()))
    rec["replays"] = []
    repro_tags, path_used = set(), None
    nrep = 0
    for sc in (scripts or []):
        path = K.write_replay(pid, h, sc, {"property": pid, "kani_failed": ",".join(tags), "features": ",".join(feats),
                                          "replay_cmd": "./check --replay <this file>"}, idx=nrep)
        nat_dev = K.native_replay(path, feats, release=False)
        nat_rel = K.native_replay(path, feats, release=True)
        if not (K.reproduced(nat_dev) or K.reproduced(nat_rel)):
            os.remove(path)  # a cover witness or a trace that does not fail natively
            continue
        nrep += 1
        rec["replays"].append({"path": path, "dev": nat_dev, "release": nat_rel})
        for nat in (nat_dev, nat_rel):
            if K.reproduced(nat):
                path_used = path_used or path
                for t in nat.get("failed", []):
                    repro_tags.add(t)
                if nat.get("panic"):
                    repro_tags.add("panic:" + nat["panic"][:100])
    if not scripts:
        # Kani's concrete playback produced nothing (its trace run is much heavier than the plain run and can exhaust
        # memory). Fallback: the solver's verdict stands; natively the same harness body is sampled until an input is
        # found on which the same tagged check fails (reproducible by seed and trial number).
        seed0 = int(os.environ.get("VERIF_SEED", "0") or 0) + 1
        nat = K.native_random(short, feats, trials=400000, seed=seed0)
        hit = [t for t in tags if nat.get("failed", {}).get(t)]
        if any(t.startswith("panic:") for t in tags) and nat.get("panics"):
            hit += [t for t in tags if t.startswith("panic:")]
        path = K.write_replay(pid, h, [], {"property": pid, "kani_failed": ",".join(tags), "features": ",".join(feats),
                                           "mode": "no trace from Kani; native sampling found failing inputs: %s" % json.dumps({k: nat.get(k) for k in ("seed", "valid_trials", "failed", "first_failing_trial", "panics", "first_panic_trial")}),
                                           "replay_cmd": "replay --random %s <trials> %d <trial>" % (short, seed0)})
        rec["replays"] = [{"path": path, "random": nat}]
        if not hit:
            outcome["inconclusive"].append("%s: failed in Kani (%s) but no concrete values extracted and native sampling found no failing input" % (h, tags))
            return
        scripts = None
        repro_tags = set(hit)
        path_used = path
    repro_tags = set(props.split_scope(pid, h, sorted(repro_tags))[0])   # natively every failing obligation is recorded: keep this property's
    if not repro_tags:
        outcome["inconclusive"].append("%s: Kani counterexample did not reproduce natively (encoding/stub issue?)" % h)
        return
    if scripts is None:
        tags = [t for t in tags if t in repro_tags]
    rec["reproduced_tags"] = sorted(repro_tags)
    # only natively reproduced failures are reported; a tag that failed in Kani but not natively keeps the run inconclusive
    native_panic = any(t.startswith("panic:") for t in repro_tags)
    confirmed, unconfirmed = [], []
    for t in sorted(set(tags) | repro_tags):
        if t in repro_tags or (t.startswith("panic:") and native_panic):
            confirmed.append(t)
        else:
            unconfirmed.append(t)
    if unconfirmed:
        outcome["inconclusive"].append("%s: failed in Kani but not natively (model artefact?): %s" % (h, ",".join(unconfirmed)[:300]))
    # known-finding protocol: a failing tag is suppressed only if listed; panics match by prefix
    new = []
    for t in confirmed:
        key = "%s::%s" % (short, t)
        kf = known_match(known, pid, key)
        if kf is None and t.startswith("panic:"):
            for f in known:
                if f.get("property") == pid and f.get("status") == "known" and key.startswith(f.get("key", "\0")):
                    kf = f
        if kf:
            outcome["known"].append((kf, path_used))
        else:
            new.append(t)
    if new:
        outcome["violations"].append({"unit": h, "tags": new, "replay": path_used})


def main(argv=None):
    ap = argparse.ArgumentParser()
    ap.add_argument("pid")
    ap.add_argument("--replay", default=None, help="re-execute a replay file natively against /repo and print the result")
    ap.add_argument("--tier", default=os.environ.get("VERIF_TIER", "quick"))
    ap.add_argument("--only", default=None, help="substring filter on unit names (debugging; evidence marks it)")
    a = ap.parse_args(argv)
    pid, tier = a.pid, a.tier
    if a.replay:
        return do_replay(a.replay)
    seed = int(os.environ.get("VERIF_SEED", "0") or 0)
    t0 = time.time()
    P = props.PROPS[pid]
    units = props.select(pid, tier, seed)
    if a.only:
        units = [u for u in units if a.only in u.get("harness", u.get("name", ""))]
    ev = {"units": [], "kani_runs": [], "m_runs": []}
    outcome = {"violations": [], "known": [], "inconclusive": []}
    kunits = [u for u in units if u["engine"] == "K"]
    munits = [u for u in units if u["engine"] == "M"]
    try:
        with ThreadPoolExecutor(max_workers=2) as ex:
            futs = []
            if kunits:
                futs.append(ex.submit(run_kani_units, pid, tier, kunits, seed, ev, outcome))
            if munits:
                from . import mrun
                futs.append(ex.submit(mrun.run_m_units, pid, tier, munits, seed, ev, outcome))
            for f in futs:
                f.result()
    except Exception as e:
        outcome["inconclusive"].append("runner exception: %s\n%s" % (e, traceback.format_exc()[-2000:]))
    wall = time.time() - t0
    write_evidence(pid, tier, seed, P, units, ev, outcome, wall, partial=bool(a.only))
    # report
    seen = set()
    for kf, path in outcome["known"]:
        if kf["key"] in seen:
            continue
        seen.add(kf["key"])
        print("KNOWN-FINDING: property=%s %s [%s]" % (pid, kf["what"], kf["key"]))
    for v in outcome["violations"]:
        print("VIOLATION property=%s replay=%s unit=%s failed=%s" % (pid, v["replay"], v["unit"], ",".join(v["tags"])))
    for m in outcome["inconclusive"]:
        print("INCONCLUSIVE property=%s %s" % (pid, m))
    npass = sum(1 for u in ev["units"] if u["status"] == "pass")
    print("%s tier=%s units=%d pass=%d violations=%d known=%d inconclusive=%d wall=%.0fs" % (
        pid, tier, len(ev["units"]), npass, len(outcome["violations"]), len(seen), len(outcome["inconclusive"]), wall))
    if outcome["violations"]:
        return 1
    if outcome["inconclusive"]:
        return 2
    return 0


def do_replay(path):
    feats = ()
    for line in open(path):
        if line.startswith("# features:"):
            feats = tuple(x for x in line.split(":", 1)[1].strip().split(",") if x)
        if line.startswith("# engine: M"):
            from . import mrun
            return mrun.replay_file(path)
    K.prepare()
    out = {}
    for rel in (False, True):
        out["release" if rel else "dev"] = K.native_replay(path, feats, release=rel)
    print(json.dumps(out, indent=1))
    return 1 if any(K.reproduced(v) for v in out.values()) else 0


def write_evidence(pid, tier, seed, P, units, ev, outcome, wall, partial=False):
    os.makedirs(EVIDENCE, exist_ok=True)
    us = ev["units"]
    obligations = sum(u.get("checks", 0) for u in us)
    discharged = sum(u.get("discharged", 0) for u in us)
    nontrivial = sum(1 for u in us if (u["status"] == "pass" and (u["engine"] == "M" or all(s == "SATISFIED" for s in u.get("covers", {}).values())))
                     or (u["status"] == "fail" and u.get("replays")))
    samples = []
    for u in us[:60]:
        samples.append({"unit": u["unit"], "engine": u["engine"], "status": u["status"], "what": u.get("what", ""),
                        "bounds": u.get("bounds", ""), "witnesses": u.get("covers", u.get("witnesses", {})),
                        "solver_time_s": u.get("solver_time_s")})
    doc = {
        "property_id": pid,
        "tier": tier if tier in ("quick", "thorough") else "quick",
        "seed": seed,
        "level": "model_checking",
        "coverage": {
            "evaluations": max(1, len(us)),
            "distinct_nontrivial": nontrivial,
            "rule": "one evaluation = one solver-decided unit (a Kani proof harness over symbolic inputs, or one engine-M SMT query family); "
                    "non-trivial = verdict pass AND every reachability witness (kani::cover / path-family non-emptiness) satisfied, or verdict fail with a counterexample that was re-executed natively",
            "obligations": obligations,
            "discharged": discharged,
            "samples": samples,
            "functions_encoded": P.get("functions", []),
            "bounds": P.get("bounds", {}).get(tier, P.get("bounds", {})) if isinstance(P.get("bounds"), dict) else P.get("bounds"),
            "outside_claim": P.get("outside", []),
            "units": us,
            "kani_runs": ev["kani_runs"],
            "m_runs": ev["m_runs"],
            "solver_time_s": round(sum((u.get("solver_time_s") or 0) for u in us), 1),
            "inconclusive": outcome["inconclusive"],
            "known_findings_hit": sorted({k["key"] for k, _ in outcome["known"]}),
            "violations_detail": outcome["violations"],
            "partial_run_filter": partial,
            "exhaustive": False,
        },
        "assumptions": P.get("assumptions", []),
        "wall_s": round(wall, 1),
        "violations": len(outcome["violations"]),
    }
    with open(os.path.join(EVIDENCE, pid + ".json"), "w") as f:
        json.dump(doc, f, indent=1, default=str)


if __name__ == "__main__":
    sys.exit(main())
