"""Engine M: CuckooFilter (insert / delete / query / union) from the MIR of /repo.

Contracts (trusted, validated natively on every run):
  * succinct::IntVector<u64>  = array of `slots` 64-bit values; get/set panic out of range; iter() = its elements
  * Range<usize>, Vec<(usize,u64)> (new/push/deref), slice iter/rev/cloned/enumerate/next = finite sequences
  * Rng::gen::<bool> = fresh Bool; gen_range(a..b) = fresh j with a <= j < b
  * CuckooFilter::hash(&fingerprint) = uninterpreted function HASHF into [0, n_buckets)
  * CuckooFilter::fingerprint(x) = f and hash(x) = i1 for the symbolic element (f != 0, i1 < n_buckets); `start` itself
    (how the alternate bucket is derived) is interpreted from its MIR
  * MAX_NUM_KICKS is substituted by the bound of the query (named constant in the MIR)
"""
import itertools, re, time
import z3
from . import core
from .core import *

HASHF = z3.Function('hashf', z3.BitVecSort(64), z3.BitVecSort(64))


class CkInterp(Interp):
    consts = {}
    impl_pat = r'cuckoofilter::<impl.*>::%s$'
    self_prefix = r'CuckooFilter::<T, R, B>'
    multi_return = ('insert_internal',)

    def operand(self, fr, s):
        s = s.strip()
        m = re.match(r'^const [\w:]*::(\w+)$', s)
        if m and m.group(1) in self.consts:
            return self.consts[m.group(1)]
        if s in ('const CuckooFilterFull', 'const ()', 'const QuotientFilterFull'):
            return Opaque('unit')
        return Interp.operand(self, fr, s)

    def rvalue(self, fr, s):
        s = s.strip()
        m = re.match(r'^std::ops::Range::<usize> \{ start: (.*), end: (.*) \}$', s)
        if m:
            return Struct('Range', [self.operand(fr, m.group(1)), self.operand(fr, m.group(2))])
        m = re.match(r'^Result::<.*>::(Ok|Err)\((.*)\)$', s)
        if m:
            return ResultVal(z3.BoolVal(m.group(1) == 'Ok'), self.operand(fr, m.group(2)))
        if s.startswith('(') and s.endswith(')') and not s.startswith('(*') and re.match(r'^\((copy|move|const) ', s):
            return [self.operand(fr, x) for x in split_top(s[1:-1])]
        if s.startswith('discriminant('):
            v = self.load(fr, self.parse_place(s[13:-1]))
            if isinstance(v, OptionVal):
                return z3.If(v.some, bv(1), bv(0)) if z3.is_expr(v.some) else bv(1 if v.some else 0)
            if isinstance(v, ResultVal):
                return z3.If(v.ok, bv(0), bv(1))
        m = re.match(r'^(.*) as (u64|usize) \(IntToInt\)$', s)
        if m:
            return self.operand(fr, m.group(1))
        m = re.match(r'^BitXor\((.*)\)$', s)
        if m:
            a = [self.operand(fr, x) for x in split_top(m.group(1))]
            return a[0] ^ a[1]
        m = re.match(r'^BitAnd\((.*)\)$', s)
        if m:
            a = [self.operand(fr, x) for x in split_top(m.group(1))]
            return z3.And(a[0], a[1]) if z3.is_bool(a[0]) else a[0] & a[1]
        return Interp.rvalue(self, fr, s)

    def project_read(self, v, proj):
        if isinstance(v, OptionVal) and proj and isinstance(proj[0], tuple):
            return Interp.project_read(self, v.payload, proj[2:])   # (as Some).0
        if isinstance(v, ResultVal) and proj and isinstance(proj[0], tuple):
            return Interp.project_read(self, v.payload, proj[2:])   # (as Ok).0 / (as Err).0
        return Interp.project_read(self, v, proj)

    def sel(self, arr, idx):
        e = arr[-1]
        for k in range(len(arr) - 2, -1, -1):
            e = z3.If(idx == k, arr[k], e)
        return e

    def bounds(self, what, idx, n):
        bad = z3.simplify(z3.And(self.cur_pc, z3.UGE(idx, n)))
        if not z3.is_false(bad):
            self.results.append((bad, 'panic', what + ' out of bounds', None))
        self.cur_pc = z3.simplify(z3.And(self.cur_pc, z3.ULT(idx, n)))

    def call(self, fr, fname, args):
        a = [self.operand(fr, x) for x in args]
        if fname == '<std::ops::Range<usize> as Iterator>::next':
            r = self.read_ref(a[0])
            st, en = r.fields
            some = z3.simplify(z3.ULT(st, en))
            self.write_ref(a[0], Struct('Range', [z3.simplify(z3.If(some, st + 1, st)), en]))
            return OptionVal(some, st)
        if fname in ('<IntVector<u64> as IntVec>::get', '<IntVector as IntVec>::get'):
            t = self.read_ref(a[0])
            self.bounds('IntVector::get', a[1], len(t.vals))
            return self.sel(t.vals, a[1])
        if fname in ('<IntVector<u64> as IntVecMut>::set', '<IntVector as IntVecMut>::set'):
            t = self.read_ref(a[0])
            self.bounds('IntVector::set', a[1], len(t.vals))
            self.write_ref(a[0], TableObj([z3.If(a[1] == k, a[2], t.vals[k]) for k in range(len(t.vals))]))
            return Opaque('unit')
        if fname == '<R as Rng>::gen::<bool>':
            v = z3.Bool('rng_b%d' % next(self.shared['ctr']))
            self.shared['draws'].append(('bool', v))
            return v
        if fname.startswith('<R as Rng>::gen_range::<usize'):
            v = z3.BitVec('rng_j%d' % next(self.shared['ctr']), 64)
            st, en = a[1].fields
            self.shared['draws'].append(('range', v, st, en))
            self.cur_pc = z3.simplify(z3.And(self.cur_pc, z3.UGE(v, st), z3.ULT(v, en)))
            return v
        m = re.match(r'^(?:std::collections::)?(Vec|VecDeque)::<[^>]*(?:<[^>]*>)?[^>]*>::(new|push|push_back|push_front|pop|pop_back|pop_front|len|is_empty|clear)$', fname)
        if m and fname not in ('Vec::<(usize, u64)>::push', 'Vec::<(usize, u64)>::new'):
            op = m.group(2)
            if op == 'new':
                return VecObj([])
            v = self.read_ref(a[0])
            if op in ('push', 'push_back'):
                self.write_ref(a[0], VecObj(v.items + [a[1]]))
                return Opaque('unit')
            if op == 'push_front':
                self.write_ref(a[0], VecObj([a[1]] + v.items))
                return Opaque('unit')
            if op in ('pop', 'pop_back'):
                if v.items:
                    self.write_ref(a[0], VecObj(v.items[:-1]))
                    return OptionVal(z3.BoolVal(True), v.items[-1])
                return OptionVal(z3.BoolVal(False), bv(0))
            if op == 'pop_front':
                if v.items:
                    self.write_ref(a[0], VecObj(v.items[1:]))
                    return OptionVal(z3.BoolVal(True), v.items[0])
                return OptionVal(z3.BoolVal(False), bv(0))
            if op == 'len':
                return bv(len(v.items))
            if op == 'is_empty':
                return z3.BoolVal(len(v.items) == 0)
            if op == 'clear':
                self.write_ref(a[0], VecObj([]))
                return Opaque('unit')
        if fname == 'Vec::<(usize, u64)>::push':
            v = self.read_ref(a[0])
            self.write_ref(a[0], VecObj(v.items + [a[1]]))
            return Opaque('unit')
        if fname == 'Vec::<(usize, u64)>::new':
            return VecObj([])
        if fname.endswith('::hash::<u64>'):
            f = self.read_ref(a[1]) if isinstance(a[1], Ref) else a[1]
            return HASHF(f)
        # `start` itself is interpreted from its MIR; only the hasher-dependent leaves are contracts:
        # fingerprint(x) = f (symbolic, != 0), hash(x) = i1 (symbolic, < n_buckets), hash(&fingerprint) = HASHF(fingerprint)
        if fname.endswith('::fingerprint'):
            return self.shared['start'][0]
        if fname.endswith('::hash::<T>'):
            return self.shared['start'][1]
        if fname.startswith('core::slice::<impl [(usize, u64)]>::iter'):
            v = a[0]
            v = self.read_ref(v) if isinstance(v, Ref) else v
            return SeqIter(v.items)
        if fname.endswith('as Iterator>::rev'):
            return SeqIter(list(reversed(a[0].items)))
        if 'as Iterator>::cloned' in fname or 'as IntoIterator>::into_iter' in fname:
            return a[0]
        if fname.endswith('as Iterator>::enumerate'):
            return SeqIter([[bv(i), v] for i, v in enumerate(a[0].items)])
        if fname.endswith('as Iterator>::next') and ('std::slice::Iter' in fname or 'int_vec::Iter' in fname):
            it = self.read_ref(a[0])
            if it.items:
                self.write_ref(a[0], SeqIter(it.items[1:]))
                return OptionVal(True, it.items[0])
            return OptionVal(False, None)
        if fname in ('IntVector::<u64>::iter', 'IntVector::iter'):
            return SeqIter(self.read_ref(a[0]).vals)
        if fname in ('<IntVector<u64> as Clone>::clone', '<IntVector as Clone>::clone', '<FixedBitSet as Clone>::clone'):
            return core.copyval(self.read_ref(a[0]))
        if fname == '<B as PartialEq>::eq':
            return z3.BoolVal(True)
        if fname == '<Vec<(usize, u64)> as Deref>::deref':
            return a[0]
        if re.match(r'^Result::<.*>::is_err$', fname):
            r = self.read_ref(a[0]) if isinstance(a[0], Ref) else a[0]
            return z3.Not(r.ok)
        if re.match(r'^Result::<.*>::is_ok$', fname):
            r = self.read_ref(a[0]) if isinstance(a[0], Ref) else a[0]
            return r.ok
        m = re.match(r'^' + self.self_prefix.replace('<', r'\<').replace('>', r'\>') + r'::(\w+)$', fname)
        if m:
            if m.group(1) in self.multi_return:
                return self.call_multi(m.group(1), a, fr)
            return self.call_merged(m.group(1), a, fr)
        return Interp.call(self, fr, fname, args)

    def sub(self, fr):
        s = self.__class__(self.fns, self.K)
        s.world = self.world
        s.shared = self.shared
        s.caller = fr
        s.up_chain = self.up_frames()
        s.merge_diamonds = getattr(self, 'merge_diamonds', False)
        return s

    def call_multi(self, name, argvals, fr):
        """callee whose return paths stay separate (each continues the caller as its own path)"""
        fn = self.find(self.impl_pat % name)
        sub = self.sub(fr)
        res = sub.run(fn, argvals, self.cur_pc)
        for pc, kind, v, snap in res:
            if kind == 'panic':
                self.results.append((pc, kind, v, snap))
        return core.MultiReturn([(pc, v, snap) for pc, kind, v, snap in res if kind == 'ret'])

    def call_merged(self, name, argvals, fr):
        """leaf callee: return paths merged back into one state with if-then-else"""
        fn = self.find(self.impl_pat % name)
        sub = self.sub(fr)
        res = sub.run(fn, argvals, self.cur_pc)
        rets = [(pc, v, snap) for pc, kind, v, snap in res if kind == 'ret']
        for pc, kind, v, snap in res:
            if kind == 'panic':
                self.results.append((pc, kind, v, snap))
        if not rets:
            raise Exception('no return path in %s: %r' % (name, [(k, v) for _, k, v, _ in res]))
        st = self.shared.setdefault('stat', {})
        st[name] = st.get(name, 0) + len(rets)
        pc_all = z3.simplify(z3.Or([pc for pc, _, _ in rets]))
        val = rets[-1][1]
        world = dict(rets[-1][2])
        cal = world.pop('__caller__')
        self.merge_chain([(pc, snap.get('__chain__', [])) for pc, v, snap in rets])
        world.pop('__chain__', None)
        for pc, v, snap in reversed(rets[:-1]):
            snap = dict(snap)
            snap.pop('__chain__', None)
            c2 = snap.pop('__caller__')
            val = core.ite(pc, v, val) if val is not None else None
            world = {k: core.ite(pc, snap[k], world[k]) for k in world}
            cal = {k: (core.ite(pc, c2[k], cal[k]) if k in c2 and k in cal else cal.get(k, c2.get(k))) for k in set(cal) | set(c2)}
        self.world['locals'].clear()
        self.world['locals'].update(world)
        fr['locals'].clear()
        fr['locals'].update(cal)
        self.cur_pc = pc_all
        return val


# --------------------------------------------------------------------------- queries
def mk_filter(slots, n, bs, nb):
    return Struct('CuckooFilter', [TableObj(slots), n, Opaque('bh'), bv(bs), bv(nb), bv(64), Opaque('rng'), Opaque('ph')])


def count(vals, g, gi, bs, nb):
    """copies of fingerprint g in the (one or two) buckets of class (g, {gi, gi ^ h(g)})"""
    gj = gi ^ HASHF(g)
    c = bv(0)
    for b in range(nb):
        inb = z3.Or(gi == b, gj == b)
        for s in range(bs):
            c = c + z3.If(z3.And(inb, vals[b * bs + s] == g), bv(1), bv(0))
    return c


def nz(sl):
    return z3.Sum([z3.If(s != 0, bv(1), bv(0)) for s in sl])


def model_table(m, slots):
    return [m.eval(s, model_completion=True).as_long() for s in slots]


def collect_hash(m, vals, nb):
    out = {}
    for v in vals:
        vv = m.eval(v, model_completion=True).as_long()
        out[vv] = m.eval(HASHF(bv(vv)), model_completion=True).as_long() % nb
    return out


def vars_in(e, acc=None):
    acc = set() if acc is None else acc
    todo = [e]
    seen = set()
    while todo:
        x = todo.pop()
        if x.get_id() in seen:
            continue
        seen.add(x.get_id())
        if z3.is_const(x) and x.decl().kind() == z3.Z3_OP_UNINTERPRETED:
            acc.add(x.decl().name())
        todo.extend(x.children())
    return acc


def draws_of(m, shared, pc=None):
    out = []
    used = vars_in(pc) if pc is not None else None
    for d in shared['draws']:
        if used is not None and d[1].decl().name() not in used:
            continue
        if d[0] == 'bool':
            out.append(['bool', bool(z3.is_true(m.eval(d[1], model_completion=True)))])
        else:
            out.append(['range', m.eval(d[1], model_completion=True).as_long(), m.eval(d[3] - d[2], model_completion=True).as_long()])
    return out


def setup(fns, kicks):
    I = CkInterp(fns, 1)
    I.shared = {'ctr': itertools.count(), 'draws': [], 'stat': {}}
    CkInterp.consts = {'MAX_NUM_KICKS': bv(kicks)}
    return I


def run_single(fns, op, bs, nb, kicks, timeout_ms=600000):
    """op in insert|delete|query: one call from an arbitrary valid table."""
    t0 = time.time()
    N = bs * nb
    I = setup(fns, kicks)
    slots = [z3.BitVec('s%d' % i, 64) for i in range(N)]
    n = z3.BitVec('n', 64)
    f = z3.BitVec('f', 64)
    i1 = z3.BitVec('i1', 64)
    i2 = i1 ^ HASHF(f)
    I.shared['start'] = [f, i1, i2]
    world = {'locals': {'self': mk_filter(slots, n, bs, nb)}}
    I.world = world
    g = z3.BitVec('g', 64)
    gi = z3.BitVec('gi', 64)
    pre = z3.And(n == nz(slots), f != 0, z3.ULT(i1, nb), g != 0, z3.ULT(gi, nb), z3.ULT(HASHF(f), nb), z3.ULT(HASHF(g), nb),
                 z3.And([z3.ULT(HASHF(v), nb) for v in slots]))
    fn = I.find(r'cuckoofilter::<impl.*>::%s$' % op)
    res = I.run(fn, [Ref((('local', world, 'self'), [])), Opaque('elem')], z3.BoolVal(True))
    symex_s = time.time() - t0
    same = z3.And(g == f, z3.Or(gi == i1, gi == i2))
    c_pre = count(slots, g, gi, bs, nb)
    cx_pre = count(slots, f, i1, bs, nb)
    out = {'paths': len(res), 'symex_s': round(symex_s, 2), 'queries': 0, 'failed': [], 'witnesses': {}, 'cexs': {}, 'stat': dict(I.shared['stat'])}
    fam = {}

    def ask(s, tag, neg, extra_vals=None):
        out['queries'] += 1
        s.push()
        s.add(neg)
        r = s.check()
        if r == z3.sat and tag not in out['failed']:
            out['failed'].append(tag)
            if True:
                s.push()
                s.add(n == N)
                if tag.startswith('insert_err') and s.check() == z3.sat:
                    m = s.model()
                    s.pop()
                else:
                    s.pop()
                    s.check()
                    m = s.model()
                out['cexs'][tag] = {'tag': tag, 'op': op, 'bs': bs, 'nb': nb, 'kicks': kicks, 'slots': model_table(m, slots), 'n': m.eval(n, model_completion=True).as_long(),
                              'f': m.eval(f, model_completion=True).as_long(), 'i1': m.eval(i1, model_completion=True).as_long(),
                              'g': m.eval(g, model_completion=True).as_long(), 'gi': m.eval(gi, model_completion=True).as_long(),
                              'hash': collect_hash(m, slots + [f, g], nb), 'draws': draws_of(m, I.shared, pc)}
        elif r == z3.unknown:
            out['failed'].append('UNKNOWN:' + tag)
        s.pop()
        return r

    for pc, kind, val, snap in res:
        s = z3.Solver()
        s.set('timeout', timeout_ms)
        s.add(pre, pc)
        if kind == 'panic':
            out['queries'] += 1
            r = s.check()
            if r != z3.unsat:
                tag = 'panic:' + val[:60]
                if tag not in out['failed']:
                    out['failed'].append(tag if r == z3.sat else 'UNKNOWN:' + tag)
                    if r == z3.sat:
                        m = s.model()
                        out['cexs'][tag] = {'tag': tag, 'op': op, 'bs': bs, 'nb': nb, 'kicks': kicks, 'slots': model_table(m, slots), 'n': m.eval(n, model_completion=True).as_long(),
                                      'f': m.eval(f, model_completion=True).as_long(), 'i1': m.eval(i1, model_completion=True).as_long(), 'g': 1, 'gi': 0,
                                      'hash': collect_hash(m, slots + [f], nb), 'draws': draws_of(m, I.shared, pc)}
            continue
        out['queries'] += 1
        if s.check() == z3.unsat:
            fam['infeasible'] = fam.get('infeasible', 0) + 1
            continue
        st = snap['self']
        tv = st.fields[0].vals
        n2 = st.fields[1]
        inv = n2 == nz(tv)
        if op == 'insert':
            okv = z3.simplify(val.ok)
            if z3.is_true(okv):
                fam['ok'] = fam.get('ok', 0) + 1
                ask(s, 'insert_ok_len_plus_one', z3.Not(n2 == n + 1))
                ask(s, 'insert_ok_class_counts', z3.Not(count(tv, g, gi, bs, nb) == c_pre + z3.If(same, bv(1), bv(0))))
                ask(s, 'insert_ok_reports_true', val.payload != z3.BoolVal(True))
                ask(s, 'insert_ok_query_true', z3.Not(z3.UGE(count(tv, f, i1, bs, nb), 1)))
                ask(s, 'invariant_n_is_nonzero_slots', z3.Not(inv))
            elif z3.is_false(okv):
                fam['err'] = fam.get('err', 0) + 1
                ask(s, 'insert_err_len_unchanged', z3.Not(n2 == n))
                ask(s, 'insert_err_class_counts_unchanged', z3.Not(count(tv, g, gi, bs, nb) == c_pre))
                ask(s, 'insert_err_only_when_room_exhausted', z3.ULT(n, bs))
                ask(s, 'invariant_n_is_nonzero_slots', z3.Not(inv))
            else:
                out['failed'].append('MODEL: undetermined Ok/Err on a path')
        elif op == 'delete':
            fam['ret'] = fam.get('ret', 0) + 1
            had = z3.UGE(cx_pre, 1)
            ask(s, 'delete_true_iff_copy_stored', z3.Not(val == had))
            ask(s, 'delete_len', z3.Not(n2 == z3.If(had, n - 1, n)))
            ask(s, 'delete_class_counts', z3.Not(count(tv, g, gi, bs, nb) == c_pre - z3.If(z3.And(had, same), bv(1), bv(0))))
            ask(s, 'invariant_n_is_nonzero_slots', z3.Not(inv))
        elif op == 'query':
            fam['ret'] = fam.get('ret', 0) + 1
            ask(s, 'query_true_if_copy_stored', z3.And(z3.UGE(cx_pre, 1), z3.Not(val)))   # no false negative (C01, C14)
            ask(s, 'query_false_if_no_copy', z3.And(z3.Not(z3.UGE(cx_pre, 1)), val))      # no bookkeeping false positive (C14)
            ask(s, 'query_is_pure', z3.Not(z3.And([a == b for a, b in zip(tv, slots)] + [n2 == n])))
    out['witnesses'] = fam
    out['wall_s'] = round(time.time() - t0, 1)
    return out


def run_union(fns, bs, nb, kicks, b_mask=None, timeout_ms=900000):
    """a.union(&b) for two arbitrary valid tables. b_mask: optional list of slot indices of b that may be non-zero."""
    t0 = time.time()
    N = bs * nb
    I = setup(fns, kicks)
    sa = [z3.BitVec('a%d' % i, 64) for i in range(N)]
    sb = [z3.BitVec('b%d' % i, 64) for i in range(N)]
    na = z3.BitVec('na', 64)
    nb_ = z3.BitVec('nb', 64)
    world = {'locals': {'self': mk_filter(sa, na, bs, nb), 'other': mk_filter(sb, nb_, bs, nb)}}
    I.world = world
    fn = I.find(r'cuckoofilter::<impl.*>::union$')
    g = z3.BitVec('g', 64)
    gi = z3.BitVec('gi', 64)
    # b_mask: None = arbitrary B; int bitmask = exactly these slots of B are occupied (case split for parallel units)
    if b_mask is None:
        extra = []
    else:
        extra = [(sb[i] != 0) if (b_mask >> i) & 1 else (sb[i] == 0) for i in range(N)]
    pre = z3.And(extra + [na == nz(sa), nb_ == nz(sb), g != 0, z3.ULT(gi, nb), z3.ULT(HASHF(g), nb), z3.And([z3.ULT(HASHF(v), nb) for v in sa + sb])])
    res = I.run(fn, [Ref((('local', world, 'self'), [])), Ref((('local', world, 'other'), []))], z3.And(extra) if extra else z3.BoolVal(True))
    symex_s = time.time() - t0
    out = {'paths': len(res), 'symex_s': round(symex_s, 2), 'queries': 0, 'failed': [], 'witnesses': {}, 'cexs': {}}
    fam = {}
    ca, cb = count(sa, g, gi, bs, nb), count(sb, g, gi, bs, nb)

    def record(tag, s):
        if tag in out['failed']:
            return
        out['failed'].append(tag)
        if True:
            # prefer a counterexample that fails for every eviction bound (more elements than slots)
            s.push()
            s.add(z3.UGT(na + nb_, N))
            if s.check() == z3.sat:
                m = s.model()
                s.pop()
            else:
                s.pop()
                s.check()
                m = s.model()
            out['cexs'][tag] = {'tag': tag, 'op': 'union', 'bs': bs, 'nb': nb, 'kicks': kicks, 'slots': model_table(m, sa), 'slots_b': model_table(m, sb),
                          'n': m.eval(na, model_completion=True).as_long(), 'n_b': m.eval(nb_, model_completion=True).as_long(),
                          'g': m.eval(g, model_completion=True).as_long(), 'gi': m.eval(gi, model_completion=True).as_long(),
                          'hash': collect_hash(m, sa + sb + [g], nb), 'draws': draws_of(m, I.shared, pc), 'f': 0, 'i1': 0}

    for pc, kind, val, snap in res:
        s = z3.Solver()
        s.set('timeout', timeout_ms)
        s.add(pre, pc)
        out['queries'] += 1
        r0 = s.check()
        if r0 == z3.unsat:
            fam['infeasible'] = fam.get('infeasible', 0) + 1
            continue
        if kind == 'panic':
            tag = 'panic:' + val[:60]
            if r0 == z3.sat:
                record(tag, s)
            else:
                out['failed'].append('UNKNOWN:' + tag)
            continue
        st = snap['self']
        tv = st.fields[0].vals
        n2 = st.fields[1]
        ob = snap['other'].fields[0].vals
        okv = z3.simplify(val.ok)
        isok = z3.is_true(okv)
        key = 'ok' if isok else 'err'
        fam[key] = fam.get(key, 0) + 1
        if isok:
            checks = [('union_ok_len_adds', n2 == na + nb_), ('union_ok_class_counts_add', count(tv, g, gi, bs, nb) == ca + cb)]
        else:
            # which transferred fingerprint failed: number of non-zero b slots consumed is not tracked; family = log length
            checks = [('union_err_len_unchanged', n2 == na), ('union_err_class_counts_unchanged', count(tv, g, gi, bs, nb) == ca)]
        checks.append(('union_other_unchanged', z3.And([x == y for x, y in zip(ob, sb)] + [snap['other'].fields[1] == nb_])))
        checks.append(('invariant_n_is_nonzero_slots', n2 == nz(tv)))
        for tag, post in checks:
            out['queries'] += 1
            s.push()
            s.add(z3.Not(post))
            r = s.check()
            if r == z3.sat:
                record(tag, s)
            elif r == z3.unknown:
                out['failed'].append('UNKNOWN:' + tag)
            s.pop()
    out['witnesses'] = fam
    out['wall_s'] = round(time.time() - t0, 1)
    return out


# --------------------------------------------------------------------------- translator validation
def eval_concrete(fns, case):
    """Push one concrete case (state, element, hash function, RNG script) through the encoding: find the unique
    feasible return path and read the post-state from the model. case: dict like a counterexample (op, bs, nb, kicks,
    slots, n, f, i1, hash, draws). -> dict(result, slots, n) or {'error': ...}"""
    bs, nb, kicks, op = case['bs'], case['nb'], case['kicks'], case['op']
    N = bs * nb
    I = setup(fns, kicks)
    slots = [z3.BitVec('s%d' % i, 64) for i in range(N)]
    n = z3.BitVec('n', 64)
    f = z3.BitVec('f', 64)
    i1 = z3.BitVec('i1', 64)
    I.shared['start'] = [f, i1, i1 ^ HASHF(f)]
    world = {'locals': {'self': mk_filter(slots, n, bs, nb)}}
    I.world = world
    pins = [slots[i] == case['slots'][i] for i in range(N)] + [n == case['n'], f == case['f'], i1 == case['i1']]
    for k, v in case['hash'].items():
        pins.append(HASHF(bv(int(k))) == int(v))
    fn = I.find(r'cuckoofilter::<impl.*>::%s$' % op)
    res = I.run(fn, [Ref((('local', world, 'self'), [])), Opaque('elem')], z3.And(pins))
    found = []
    for pc, kind, val, snap in res:
        used = vars_in(pc)
        mine = [d for d in I.shared['draws'] if d[1].decl().name() in used]
        if len(mine) > len(case['draws']):
            continue
        cons = []
        ok = True
        for d, c in zip(mine, case['draws']):
            if d[0] != c[0]:
                ok = False
                break
            cons.append(d[1] == (z3.BoolVal(bool(c[1])) if d[0] == 'bool' else bv(int(c[1]))))
        if not ok:
            continue
        r, mdl = solve(pins + [pc] + cons, 60000)
        if r == z3.sat:
            found.append((kind, val, snap, mdl, len(mine)))
    if len(found) != 1:
        return {'error': 'expected exactly one feasible path, found %d' % len(found)}
    kind, val, snap, mdl, used = found[0]
    if kind == 'panic':
        return {'result': 'panic:' + str(val)[:40]}
    g = lambda e: mdl.eval(e, model_completion=True)
    st = snap['self']
    if op == 'insert':
        okv = z3.is_true(g(val.ok))
        res_s = ('ok_true' if z3.is_true(g(val.payload)) else 'ok_false') if okv else 'err'
    else:
        res_s = 'true' if z3.is_true(g(val)) else 'false'
    return {'result': res_s, 'slots': [g(v).as_long() for v in st.fields[0].vals], 'n': g(st.fields[1]).as_long(), 'draws_used': used}


def random_case(rng, op):
    bs, nb = 2, 2
    vals = [0, 0, 1, 2, 3, 5]
    slots = [rng.choice(vals if rng.random() < 0.5 else [1, 2, 3, 5]) for _ in range(4)]
    f = rng.choice([1, 2, 3, 5, 7])
    hashm = {str(v): rng.randrange(2) for v in set(slots + [f, 1, 2, 3, 5, 7])}
    draws = [['bool', rng.random() < 0.5]] + [['range', rng.randrange(2), 2] for _ in range(4)]
    return {'op': op, 'bs': bs, 'nb': nb, 'kicks': 2, 'slots': slots, 'n': sum(1 for v in slots if v), 'f': f, 'i1': rng.randrange(2),
            'g': 1, 'gi': 0, 'hash': hashm, 'draws': draws, 'tag': 'validation'}
