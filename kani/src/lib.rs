//! Kani harnesses (engine K) for the properties in /verif/properties.jsonl.
//! Every harness body is an ordinary function that draws its inputs from
//! `vsrc`; under `cargo kani` the inputs are symbolic, in the native `replay`
//! binary they come from a counterexample script.
#![allow(dead_code)]
#![allow(clippy::all)]

#[macro_use]
pub mod vsrc;
pub mod models;
#[cfg(not(kani))]
pub mod mexec;

/// Declare a harness: `harness!(name, unwind N, { body })`, optionally with stubs:
/// `harness!(name, unwind N, wmul, { .. })`, `... wmul_ln ...`, `... ln ...`.
#[macro_export]
macro_rules! harness {
    ($name:ident, unwind $n:literal, $body:block) => {
        #[cfg_attr(kani, kani::proof)]
        #[cfg_attr(kani, kani::unwind($n))]
        pub fn $name() $body
    };
    ($name:ident, unwind $n:literal, wmul, $body:block) => {
        #[cfg_attr(kani, kani::proof)]
        #[cfg_attr(kani, kani::unwind($n))]
        #[cfg_attr(kani, kani::stub(<usize as rand::distributions::utils::WideningMultiply>::wmul, $crate::models::stub_wmul))]
        pub fn $name() $body
    };
    ($name:ident, unwind $n:literal, wmul_ln, $body:block) => {
        #[cfg_attr(kani, kani::proof)]
        #[cfg_attr(kani, kani::unwind($n))]
        #[cfg_attr(kani, kani::stub(<usize as rand::distributions::utils::WideningMultiply>::wmul, $crate::models::stub_wmul))]
        #[cfg_attr(kani, kani::stub(f64::ln, $crate::models::stub_ln))]
        pub fn $name() $body
    };
    ($name:ident, unwind $n:literal, ln, $body:block) => {
        #[cfg_attr(kani, kani::proof)]
        #[cfg_attr(kani, kani::unwind($n))]
        #[cfg_attr(kani, kani::stub(f64::ln, $crate::models::stub_ln))]
        #[cfg_attr(kani, kani::stub(f64::log2, $crate::models::stub_log2))]
        pub fn $name() $body
    };
}

pub mod h_bloom;
pub mod h_cms;
pub mod h_cuckoo;
pub mod h_hll;
pub mod h_mem;
pub mod h_qf;
pub mod h_reservoir;
pub mod h_serde;
pub mod h_sizing;
pub mod h_tdigest;

pub mod registry;
