"""Generate /verif/MANIFEST.json from vf.props (run: python3-vt -m vf.manifest)."""
import json, os, subprocess
from .common import VERIF, REPO
from . import props

NA_FIXED = {
    "C03": "statistical: RMS/tail of the relative error over independent 64-bit hash seeds for 15 precisions; no universally quantified form a bounded SMT query can decide (float harmonic mean over up to 2^18 registers + 6-NN interpolation over ~3000 constants); no model counter available. See DESIGN.md §C03.",
    "C04": "asymptotic real-valued bound (centroids <= delta+3 for unbounded n; rank error <= c*W(n,delta)) through asin/sin/ln/exp; Kani has no asin (FFI), approximates ln/exp with a nondeterministic error band, and three merging inserts exhaust 46 GB. A bounded check at n<=4 says nothing about the regime n>=delta. See DESIGN.md §C04.",
    "C08": "a fraction over (hasher seed, element) pairs: depends on statistical independence of the double-hashing rows, not a pointwise assertion; only the sizing arithmetic w=ceil(e/eps), d=ceil(ln 1/delta) would be solver-decidable, which is not the property. See DESIGN.md §C08.",
}


LEVEL = {
 "C01": ("Bounded model checking of inductive steps: (a) insert(x) makes query(x) true and (b) every later operation keeps a present element present, from an ARBITRARY valid state with symbolic hashers and RNG — so the claim covers histories of any length, for tables up to the stated sizes. Solver verdict over all inputs within the bounds; counterexamples are replayed natively.",
         "Trusted: Kani/CBMC and z3/cvc5; the harness hashers (any function = symbolic words); engine-M container contracts (validated natively); state invariants listed in evidence.assumptions. Outside: larger tables, longer eviction chains."),
 "C02": ("Inductive step with ghost counts decided by CBMC for all cell values/hash residues at w,d<=3: row sums = N and query_point(x) >= true(x) are preserved by add_n/merge/clear, and imply true<=est<=N, return value == query_point.",
         "Counter overflow is assumed away (checked_add panics are out of the statement); hash words are 8-bit (only h mod w is consumed)."),
 "C05": ("STRUCTURAL form: uniformity is a probability over the RNG; under the contract that rand's samplers are uniform on the requested range it is equivalent to per-step conditions (range of the draw, acceptance set, slot written, gap law in robust ranges), which CBMC decides for all RNG words, k<=3, i<=2^20.",
         "rand's samplers trusted uniform; ln stubbed by a sound over-approximation; a different-but-also-uniform scheme would be flagged (accepted); the size of the documented gap-sampling bias for n>>4k is not decided."),
 "C06": ("Algebraic decomposition decided per lemma on arbitrary states: merge = cell-wise OR/sum/max, add = merge with a singleton, QF union = enc(X u Y), cuckoo union adds class counts; observers are functions of the raw state, hence stream equivalence, commutativity, associativity, idempotence.",
         "QF union only at 2 slots in Kani; cuckoo union at 4+4 slots and <=1 (thorough 2) evictions; engine-M contracts as in C14."),
 "C07": ("PARTIAL: decides usability (k>=1, m>=1, no panic), the sizing relations the rates rest on (Bloom: k within one of log2(1/p), m not below n ln(1/p)/ln(2)^2; cuckoo: capacity and fingerprint length 2^l * p >= 2*bucketsize, not wastefully long), BloomFilter::len() = -(m/k) ln(1-X/m) for every bit pattern at m=64, and the fingerprint / quotient-remainder structure for symbolic (n,p); does NOT decide the measured false-positive frequencies (distributions over seeds).",
         "ln/log2 are sound over-approximating stubs; p >= 2^-40 (cuckoo) / 2^-8 (Bloom), n <= 1024 / 16."),
 "C09": ("Manku-Motwani invariant proved inductive on the MIR of add (64-bit, symbolic n and width, 3 keys) and the query clauses derived from it with exact dyadic thresholds; of the table-size bound the step invariant it is derived from (after every add each tracked x has f+delta > floor(n/width)) is decided, the counting argument from it to width*(H+1) is Manku & Motwani's and is not re-proved.",
         "HashMap contract over 3 keys (validated natively); division lemma discharged separately; query check for width | 64, thresholds a/64, n < 2^20."),
 "C10": ("Top-k invariant proved inductive on the MIR of CMSHeap::add (dev profile incl. debug_assert) with HashMap/BTreeSet/Rc contracts and the sketch replaced by the C02 contract; the statement's clauses are discharged from the invariant.",
         "Proved modulo C02; 3 keys, k <= 2; BTreeSet order contract = TreeEntry::cmp's (n, obj)."),
 "C11": ("Allocation arithmetic decided for symbolic configurations (all fingerprint widths 2..64); no-growth is asserted in the step harnesses of the other properties (block counts / len / capacity unchanged by every operation incl. failed ones and clear).",
         "PARTIAL: TDigest centroid count O(delta) not decided (float/asymptotic) beyond: backlog bound, immediate merge at backlog 0, total fusion at delta 1.1, and the sample count handed to the scale function; LossyCounter exempt by the statement."),
 "C12": ("Err branches of the insert/union step obligations from arbitrary valid states: observational equality (len + every class count) for the cuckoo filter, raw equality to enc(X) for the quotient filter; 'later operations behave as if it had not happened' follows since the post-state is a pre-state of the next step.",
         "Raw equality for QF is sufficient, not necessary; cuckoo union at 4+4 slots; engine-M contracts."),
 "C13": ("Every reachable state is enc(X) for a set X (reference encoder, validated natively for history independence); one insert/query from enc(X) is compared with the specification and enc(X') by CBMC for all X, all elements at (2,2) — exact set semantics incl. absence, Full exactly at capacity.",
         "(2,2) in quick, (1,2),(1,1) thorough; enc is part of the trusted base (validated on every run)."),
 "C14": ("One insert/delete/query from an arbitrary valid table decided on the crate's MIR with 64-bit symbolic slots, every hash function and RNG outcome: class counts, len, returned values; panic paths infeasible. Kani cross-check on the compiled code (thorough).",
         "4 slots quick, 8 thorough; eviction chains <= 2/4 (6 thorough); IntVector bit packing abstracted by the array contract (covered by the Kani cross-check at l=16)."),
 "C15": ("quantile/cdf shape decided by CBMC (bit-precise IEEE) on every digest of <=2 (thorough 3) centroids with integer weights 1..4 and means -8..8: endpoints, monotonicity, range, mutual consistency, repeatability, empty digest.",
         "small-integer floats; tolerance 1e-9; scale functions not involved in the read path."),
 "C16": ("Inductive steps on hook-built states: insert_weighted adds (w, x*w) to the raw totals and updates min/max; merge preserves raw totals, sorts, empties the backlog; count/sum/mean read the totals.",
         "<=2 centroids + <=2 backlog, K0 only (K1 asin is FFI; K2/K3 ln/exp), small-integer floats (exact sums)."),
 "C17": ("add_hashed decided against an independent bit-scan specification for all 64-bit hashes and arbitrary registers at b=4; order/repetition independence, add = add_hashed(hash_one), reconstruction.",
         "b=4 only in Kani (the code is uniform in b)."),
 "C18": ("One add from an arbitrary valid state (k<=3, i<=2^20 symbolic, every RNG word, sound ln stub): size, distinctness, provenance, prefix order, counters, no panic.",
         "wmul stub (arbitrary j<range) replaces rand's rejection loop; ln over-approximated."),
 "C19": ("clear == fresh on raw parts, clone equal and independent (mutate either side), is_empty characterisation — per structure on arbitrary states; TDigest additionally through a probe ScaleFunction observing n.",
         "raw-part equality is sufficient for observational equality; RNGs are not compared."),
 "C20": ("The real Deserialize/Serialize impls driven through the serde data model by harness (de)serializers over 18 document shapes with symbolic b and register contents: Err or constructor invariants, then usable; valid documents accepted; round trip equal.",
         "text formats (serde_json) not encoded; registers up to 17 (thorough 33) entries."),
}


def main():
    hooks_commits = []
    try:
        out = subprocess.run(["git", "-C", REPO, "log", "--format=%H %s"], capture_output=True, text=True).stdout
        for line in out.splitlines():
            h, _, s = line.partition(" ")
            if s.startswith("verif hooks"):
                hooks_commits.append(h)
    except Exception:
        pass
    checks, na = [], []
    ids = ["C%02d" % i for i in range(1, 21)]
    for pid in ids:
        P = props.PROPS.get(pid)
        if P and P.get("units") and P.get("claimed", True):
            checks.append({
                "property_id": pid,
                "quick_cmd": "./check %s --tier quick" % pid,
                "thorough_cmd": "./check %s --tier thorough" % pid,
                "evidence_file": "/verif/evidence/%s.json" % pid,
                "replay_cmd_template": "./check %s --replay {path}" % pid,
                "engine": P.get("engine", "kani"),
                "level_claimed": {"category": "model_checking", "text": LEVEL.get(pid, ("", ""))[0], "design_ref": "DESIGN.md §4 " + pid},
                "level_note": LEVEL.get(pid, ("", ""))[1],
                "technique": P.get("technique", "bounded model checking of the compiled code (Kani/CBMC, SAT)"),
            })
        else:
            na.append({"property_id": pid, "reason": NA_FIXED.get(pid) or (P or {}).get("na_reason") or "check not built yet in this revision of /verif (planned, see DESIGN.md)"})
    man = {
        "version": 1,
        "setup_cmd": "./setup.sh",
        "hooks": {
            "guard": "cargo features `verif` (raw-state accessors) and `verif-kicks2` (cuckoo eviction bound 2) of the pdatastructs crate; both off by default",
            "enable": "harness crate /verif/kani depends on pdatastructs = { path = \"/repo\", features = [\"verif\"] } (+ feature kicks2 -> verif-kicks2); engine M reads the MIR of the unmodified default build",
            "baseline_off_cmd": "cd /repo && cargo test --offline --no-fail-fast",
            "source_commits": hooks_commits,
            "add_only": True,
        },
        "engines": [
            {"name": "kani", "path": "/verif/kani", "serves_properties": [c["property_id"] for c in checks if "kani" in c["engine"]],
             "kind_free_text": "Kani 0.68 proof harnesses over symbolic inputs on the compiled crate (CBMC 6.11, CaDiCaL); native replay driver for counterexamples"},
            {"name": "mir2smt", "path": "/verif/mir2smt", "serves_properties": [c["property_id"] for c in checks if "mir2smt" in c["engine"]],
             "kind_free_text": "own symbolic interpreter for rustc's MIR dump of /repo -> z3 (cross-checked with cvc5); container contracts for HashMap/BTreeSet/IntVector"},
        ],
        "checks": checks,
        "not_applicable": na,
        "notes": "All checks are solver-based (bounded) checks of the real code; exit 0 = held within the stated bounds, 1 = reproduced violation, 2 = inconclusive (timeout, OOM, vacuity, non-reproducing counterexample). Known findings: /verif/known_findings.json.",
    }
    with open(os.path.join(VERIF, "MANIFEST.json"), "w") as f:
        json.dump(man, f, indent=1)
    try:
        import jsonschema
        jsonschema.validate(man, json.load(open("/root/.vp/MANIFEST.schema.json")))
        print("MANIFEST valid: %d checks, %d n/a" % (len(checks), len(na)))
    except ImportError:
        print("written (jsonschema not available)")


if __name__ == "__main__":
    main()
