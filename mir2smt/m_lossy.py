"""Engine M: LossyCounter (C09, C19) from the MIR of /repo.

HashMap<T, KnownEntry> contract over the key universe {0..K-1}: present[k], vals[k];
entry/get_mut/insert/drain/filter/collect/iter/new as documented by std.
Division/remainder by the symbolic width are uninterpreted udiv64/urem64 plus the division
lemma for n and its successor form for n+1 (discharged separately, see `lemma_obligation`).
"""
import re, time
import z3
from . import core
from .core import *

K = 3


def sel(arr, key):
    e = arr[-1]
    for k in range(len(arr) - 2, -1, -1):
        e = z3.If(key == k, arr[k], e)
    return e


class LossyInterp(Interp):
    def call(self, fr, fname, args):
        if re.match(r'^HashMap::<.*>::new$', fname):
            return MapObj(self.K, [z3.BoolVal(False)] * self.K, [Struct('KnownEntry', [bv(0), bv(0)]) for _ in range(self.K)])
        if fname == 'f64::<impl f64>::ceil' or fname.endswith('f64>::ceil'):
            a = self.operand(fr, args[0])
            return z3.fpRoundToIntegral(z3.RTP(), a)
        if fname.endswith('<HashMap<T, KnownEntry> as Clone>::clone') or re.match(r'^<HashMap<.*> as Clone>::clone$', fname):
            a = self.operand(fr, args[0])
            return core.copyval(self.read_ref(a))
        if re.match(r'^<f64 as Clone>::clone$|^<usize as Clone>::clone$', fname):
            a = self.operand(fr, args[0])
            return self.read_ref(a)
        return Interp.call(self, fr, fname, args)

    def rvalue(self, fr, s):
        s = s.strip()
        m = re.match(r'^(LossyCounter::<T>|topk::lossycounter::KnownEntry|KnownEntry) \{(.*)\}$', s)
        if m:
            return Struct(m.group(1), [self.operand(fr, f.split(':', 1)[1]) for f in split_top(m.group(2))])
        m = re.match(r'^Div\((.*)\)$', s)
        if m:
            a = [self.operand(fr, x) for x in split_top(m.group(1))]
            if z3.is_fp(a[0]):
                return z3.fpDiv(z3.RNE(), a[0], a[1])
        m = re.match(r'^(Gt|Lt|Ge|Le|Eq|Ne)\((.*)\)$', s)
        if m:
            a = [self.operand(fr, x) for x in split_top(m.group(2))]
            if z3.is_fp(a[0]):
                return {'Gt': z3.fpGT, 'Lt': z3.fpLT, 'Ge': z3.fpGEQ, 'Le': z3.fpLEQ, 'Eq': z3.fpEQ, 'Ne': z3.fpNEQ}[m.group(1)](a[0], a[1])
        m = re.match(r'^BitAnd\((.*)\)$', s)
        if m:
            a = [self.operand(fr, x) for x in split_top(m.group(1))]
            return z3.And(a[0], a[1]) if z3.is_bool(a[0]) else a[0] & a[1]
        return Interp.rvalue(self, fr, s)


class Fx:
    """f64 value represented exactly as a signed 64-bit fixed-point number with 6 fractional bits (value * 64).
    Sound only in the stated domain of the query check (dyadic thresholds a/64, epsilon = 1/width with width | 64,
    n < 2^20): every float operation of `query` is exact there, so IEEE semantics = exact arithmetic."""
    def __init__(self, v):
        self.v = v


class LossyFixInterp(LossyInterp):
    def operand(self, fr, s):
        s = s.strip()
        m = re.match(r'^const (-?[\d.]+)f64$', s)
        if m:
            x = float(m.group(1)) * 64
            assert x == int(x)
            return Fx(bv(int(x)))
        return LossyInterp.operand(self, fr, s)

    def rvalue(self, fr, s):
        s = s.strip()
        m = re.match(r'^(Sub|Mul|Add)\((.*)\)$', s)
        if m:
            a = [self.operand(fr, x) for x in split_top(m.group(2))]
            if isinstance(a[0], Fx):
                x, y = a[0].v, a[1].v
                if m.group(1) == 'Sub':
                    return Fx(x - y)
                if m.group(1) == 'Add':
                    return Fx(x + y)
                return Fx((x * y) >> 6)      # exact: one factor is an integer (multiple of 64)
        m = re.match(r'^(.*) as f64 \(IntToFloat\)$', s)
        if m:
            return Fx(self.operand(fr, m.group(1)) << 6)
        m = re.match(r'^(.*) as usize \(FloatToInt\)$', s)
        if m:
            x = self.operand(fr, m.group(1)).v
            return z3.If(x < 0, bv(0), x >> 6)
        return LossyInterp.rvalue(self, fr, s)

    def call(self, fr, fname, args):
        if fname.endswith('f64>::ceil'):
            x = self.operand(fr, args[0]).v
            return Fx(((x + 63) >> 6) << 6)      # arithmetic shift = floor; (x+63)>>6 = ceil(x/64)
        if fname.endswith('f64>::max'):
            x, y = self.operand(fr, args[0]).v, self.operand(fr, args[1]).v
            return Fx(z3.If(x >= y, x, y))
        if fname.endswith('f64>::min'):
            x, y = self.operand(fr, args[0]).v, self.operand(fr, args[1]).v
            return Fx(z3.If(x <= y, x, y))
        if fname.endswith('f64>::floor'):
            x = self.operand(fr, args[0]).v
            return Fx((x >> 6) << 6)             # arithmetic shift = floor
        if fname.endswith('f64>::trunc'):
            x = self.operand(fr, args[0]).v
            return Fx(z3.If(x < 0, -(((-x) >> 6) << 6), (x >> 6) << 6))
        if fname.endswith('f64>::abs'):
            x = self.operand(fr, args[0]).v
            return Fx(z3.If(x < 0, -x, x))
        return LossyInterp.call(self, fr, fname, args)


def state(prefix=''):
    present = [z3.Bool('%sp%d' % (prefix, k)) for k in range(K)]
    f = [z3.BitVec('%sf%d' % (prefix, k), 64) for k in range(K)]
    d = [z3.BitVec('%sd%d' % (prefix, k), 64) for k in range(K)]
    T = [z3.BitVec('%sT%d' % (prefix, k), 64) for k in range(K)]
    n = z3.BitVec(prefix + 'n', 64)
    width = z3.BitVec(prefix + 'w', 64)
    return present, f, d, T, n, width


def inv_A(present, f, d, T, n, width, B, divf=None, remf=None):
    """(A): tracked x: f>=1, f<=T<=f+delta, delta<=ceil(n/w)-1 ; untracked x: T<=floor(n/w); n = sum T."""
    divf = divf or UDIV
    remf = remf or UREM
    bfloor = divf(n, width)
    bceil = z3.If(remf(n, width) == 0, bfloor, bfloor + 1)
    cs = [z3.UGE(width, 1), z3.ULT(n, B), z3.ULT(width, 2 ** 62)]
    tot = bv(0)
    for k in range(K):
        cs += [z3.ULT(T[k], B), z3.ULT(d[k], B), z3.ULT(f[k], B)]
        tracked = z3.And(z3.UGE(f[k], 1), z3.ULE(f[k], T[k]), z3.ULE(T[k], f[k] + d[k]), z3.ULE(d[k] + 1, z3.If(bceil == 0, bv(1), bceil)))
        cs.append(z3.If(present[k], tracked, z3.ULE(T[k], bfloor)))
        tot = tot + T[k]
    cs.append(tot == n)
    return z3.And(cs)


def inv_B(present, f, d, n, width):
    """(B): the pruning rule is applied in full: tracked x has f+delta > floor(n/w)."""
    bfloor = UDIV(n, width)
    return z3.And([z3.Implies(present[k], z3.UGT(f[k] + d[k], bfloor)) for k in range(K)])


def div_lemmas(n, width):
    r0 = UREM(n, width)
    q0 = UDIV(n, width)
    return z3.And(z3.ULT(r0, width), z3.ULE(q0, n),
                  UREM(n + 1, width) == z3.If(r0 + 1 == width, bv(0), r0 + 1),
                  UDIV(n + 1, width) == z3.If(r0 + 1 == width, q0 + 1, q0))


def lemma_obligation():
    """Successor form of the division lemma. (1) over mathematical integers for all n >= 0, w > 0 (Euclidean division is
    unique; bvudiv/bvurem coincide with it and n+1 does not wrap because n < 2^61); (2) bit-level sanity on all 8-bit words."""
    n, w, q, r, q2, r2 = z3.Ints('ln lw lq lr lq2 lr2')
    s = z3.Solver()
    s.set('timeout', 120000)
    s.add(w > 0, n >= 0, n == q * w + r, 0 <= r, r < w, n + 1 == q2 * w + r2, 0 <= r2, r2 < w)
    s.add(z3.Not(z3.And(z3.Implies(r + 1 == w, z3.And(r2 == 0, q2 == q + 1)), z3.Implies(r + 1 != w, z3.And(r2 == r + 1, q2 == q)))))
    if s.check() != z3.unsat:
        return False
    n = z3.BitVec('bn', 8)
    w = z3.BitVec('bw', 8)
    s = z3.Solver()
    s.set('timeout', 120000)
    r0, q0 = z3.URem(n, w), z3.UDiv(n, w)
    s.add(w != 0, n != 0xff)
    s.add(z3.Not(z3.And(z3.ULT(r0, w), z3.ULE(q0, n),
                        z3.URem(n + 1, w) == z3.If(r0 + 1 == w, z3.BitVecVal(0, 8), r0 + 1),
                        z3.UDiv(n + 1, w) == z3.If(r0 + 1 == w, q0 + 1, q0))))
    return s.check() == z3.unsat


def cex_of(m, present, f, d, T, n, width, y, extra=None):
    g = lambda e: m.eval(e, model_completion=True)
    c = {'width': g(width).as_long(), 'n': g(n).as_long(), 'y': g(y).as_long() if y is not None else None,
         'known': [[k, g(f[k]).as_long(), g(d[k]).as_long()] for k in range(K) if z3.is_true(g(present[k]))],
         'T': [g(T[k]).as_long() for k in range(K)]}
    if extra:
        c.update(extra)
    return c


def run_add(fns, timeout_ms):
    t0 = time.time()
    I = LossyInterp(fns, K)
    add = I.find(r'lossycounter::<impl.*>::add$')
    present, f, d, T, n, width = state()
    eps = z3.FP('eps', z3.Float64())
    y = z3.BitVec('y', 64)
    m = MapObj(K, present, [Struct('KnownEntry', [f[k], d[k]]) for k in range(K)])
    world = {'locals': {'self': Struct('LossyCounter', [eps, m, n, width])}}
    I.world = world
    pre = z3.And(inv_A(present, f, d, T, n, width, 2 ** 61), inv_B(present, f, d, n, width), z3.ULT(y, K), div_lemmas(n, width))
    res = I.run(add, [Ref((('local', world, 'self'), [])), y], z3.BoolVal(True))
    out = {'paths': len(res), 'symex_s': round(time.time() - t0, 2), 'queries': 0, 'failed': [], 'witnesses': {}, 'cexs': {}, 'reported': {}}
    fam = {}
    for pc, kind, val, snap in res:
        s = z3.Solver()
        s.set('timeout', timeout_ms)
        s.add(pre, pc)
        out['queries'] += 1
        if kind == 'panic':
            r = s.check()
            if r != z3.unsat:
                tag = 'panic:' + val[:60]
                out['failed'].append(tag if r == z3.sat else 'UNKNOWN:' + tag)
                if r == z3.sat:
                    out['cexs'][tag] = cex_of(s.model(), present, f, d, T, n, width, y, {'op': 'add'})
            continue
        if s.check() == z3.unsat:
            fam['infeasible'] = fam.get('infeasible', 0) + 1
            continue
        st = snap['self']
        m2, n2, w2 = st.fields[1], st.fields[2], st.fields[3]
        T2 = [z3.If(y == k, T[k] + 1, T[k]) for k in range(K)]
        f2 = [m2.vals[k].fields[0] for k in range(K)]
        d2 = [m2.vals[k].fields[1] for k in range(K)]
        at_end = z3.simplify(UREM(n + 1, width) == 0)
        fam['ret'] = fam.get('ret', 0) + 1
        checks = [
            ('add_n_counts_calls', n2 == n + 1),
            ('add_keeps_width_epsilon', z3.And(w2 == width, st.fields[0] == eps)),
            ('add_returns_true_iff_untracked', val == z3.Not(sel(present, y))),
            ('add_preserves_frequency_invariant', inv_A(m2.present, f2, d2, T2, n2, w2, 2 ** 62)),
            # table bound: width*(H(ceil(n/width))+1) is derived (Manku & Motwani, Thm. 4.2 argument) from exactly this fact:
            # after every add each tracked x has f+delta > floor(n/width), i.e. the pruning rule has been applied in full at
            # every window end. A window end that leaves an entry with f+delta <= floor(n/width) breaks the derivation, and the
            # table then grows by one entry per distinct element (no bound). Decided as an inductive invariant like (A).
            ('add_keeps_table_pruned_for_size_bound', inv_B(m2.present, f2, d2, n2, w2)),
        ]
        for tag, post in checks:
            out['queries'] += 1
            r, mdl = solve([pre, pc, z3.Not(post)], timeout_ms)
            if r == z3.sat and tag not in out['failed']:
                out['failed'].append(tag)
                out['cexs'][tag] = cex_of(mdl, present, f, d, T, n, width, y, {'op': 'add'})
            elif r == z3.unknown:
                out['failed'].append('UNKNOWN:' + tag)
        # witness: pruning removes something at a window end
        rw, _ = solve([pre, pc, UREM(n + 1, width) == 0, z3.Or([z3.And(present[k], z3.Not(m2.present[k])) for k in range(K)])], timeout_ms)
        if rw == z3.sat:
            fam['pruned_at_window_end'] = fam.get('pruned_at_window_end', 0) + 1
    out['witnesses'] = fam
    out['wall_s'] = round(time.time() - t0, 1)
    return out


def run_new(fns, timeout_ms):
    """with_width(w): empty counter satisfying the invariant, epsilon = 1/w; clear(): same with width kept."""
    t0 = time.time()
    out = {'paths': 0, 'queries': 0, 'failed': [], 'witnesses': {}, 'cexs': {}}
    I = LossyInterp(fns, K)
    fn = I.find(r'lossycounter::<impl.*>::with_width$')
    w = z3.BitVec('w', 64)
    res = I.run(fn, [w], z3.BoolVal(True))
    out['paths'] += len(res)
    for pc, kind, val, snap in res:
        s = z3.Solver()
        s.set('timeout', timeout_ms)
        s.add(pc)
        out['queries'] += 1
        if kind == 'panic':
            # the only allowed panic: width == 0
            s.add(w != 0)
            if s.check() != z3.unsat:
                out['failed'].append('panic:with_width panics for width>0: ' + val[:40])
            else:
                out['witnesses']['panic_width0'] = 1
            continue
        out['witnesses']['ret'] = out['witnesses'].get('ret', 0) + 1
        st = val
        post = z3.And(st.fields[2] == 0, st.fields[3] == w, w != 0, z3.And([z3.Not(p) for p in st.fields[1].present]),
                      z3.fpEQ(st.fields[0], z3.fpDiv(z3.RNE(), z3.FPVal(1.0, z3.Float64()), z3.fpUnsignedToFP(z3.RNE(), w, z3.Float64()))))
        s.add(z3.Not(post))
        if s.check() != z3.unsat:
            out['failed'].append('with_width_is_empty_counter')
            out['cexs']['with_width_is_empty_counter'] = {'op': 'with_width', 'width': s.model().eval(w, model_completion=True).as_long()}
    # clear
    I = LossyInterp(fns, K)
    fn = I.find(r'lossycounter::<impl.*>::clear$')
    present, f, d, T, n, width = state()
    eps = z3.FP('eps', z3.Float64())
    world = {'locals': {'self': Struct('LossyCounter', [eps, MapObj(K, present, [Struct('KnownEntry', [f[k], d[k]]) for k in range(K)]), n, width])}}
    I.world = world
    res = I.run(fn, [Ref((('local', world, 'self'), []))], z3.BoolVal(True))
    out['paths'] += len(res)
    for pc, kind, val, snap in res:
        s = z3.Solver()
        s.add(pc)
        out['queries'] += 1
        if kind == 'panic':
            if s.check() != z3.unsat:
                out['failed'].append('panic:clear ' + val[:40])
            continue
        st = snap['self']
        post = z3.And(st.fields[2] == 0, st.fields[3] == width, st.fields[0] == eps, z3.And([z3.Not(p) for p in st.fields[1].present]))
        s.add(z3.Not(post))
        out['witnesses']['clear_ret'] = 1
        if s.check() != z3.unsat:
            out['failed'].append('clear_is_fresh')
            out['cexs']['clear_is_fresh'] = {'op': 'clear'}
    # clone (derived): equal parts
    I = LossyInterp(fns, K)
    cl = [nm for nm in fns if re.search(r'lossycounter::<impl.*>::clone$', nm) and 'LossyCounter' in fns[nm].sig]
    if cl:
        world = {'locals': {'self': Struct('LossyCounter', [eps, MapObj(K, present, [Struct('KnownEntry', [f[k], d[k]]) for k in range(K)]), n, width])}}
        I.world = world
        try:
            res = I.run(fns[cl[0]], [Ref((('local', world, 'self'), []))], z3.BoolVal(True))
            for pc, kind, val, snap in res:
                if kind != 'ret':
                    continue
                s = z3.Solver()
                s.add(pc)
                out['queries'] += 1
                eq = z3.And([val.fields[2] == n, val.fields[3] == width, val.fields[0] == eps] +
                            [val.fields[1].present[k] == present[k] for k in range(K)] +
                            [z3.Implies(present[k], z3.And(val.fields[1].vals[k].fields[0] == f[k], val.fields[1].vals[k].fields[1] == d[k])) for k in range(K)])
                s.add(z3.Not(eq))
                out['witnesses']['clone_ret'] = 1
                if s.check() != z3.unsat:
                    out['failed'].append('clone_equal')
                    out['cexs']['clone_equal'] = {'op': 'clone'}
        except Exception as e:
            out['failed'].append('MODEL: clone not interpretable: %s' % str(e)[:80])
    out['wall_s'] = round(time.time() - t0, 1)
    return out


def run_query(fns, width_c, timeout_ms, thresholds=None):
    """query(s) from the invariant, for a concrete power-of-two width (epsilon = 1/width exact), s = a/64, n < 2^20:
    every x with T >= s*n and T > eps*n is returned; no x with T < (s-eps)*n is returned."""
    t0 = time.time()
    assert 64 % width_c == 0
    I = LossyFixInterp(fns, K)
    fn = I.find(r'lossycounter::<impl.*>::query$')
    clo = I.find(r'lossycounter::<impl.*>::query::\{closure#0\}$')
    present, f, d, T, n, width = state()
    eps = Fx(bv(64 // width_c))
    a = z3.BitVec('a', 64)
    thr = Fx(a)
    m = MapObj(K, present, [Struct('KnownEntry', [f[k], d[k]]) for k in range(K)])
    world = {'locals': {'self': Struct('LossyCounter', [eps, m, n, width])}}
    I.world = world
    # the width is concrete here: division by a constant is decided with the real bvudiv/bvurem
    wc = bv(width_c)
    pre = z3.And(width == width_c, inv_A(present, f, d, T, n, wc, 2 ** 20, lambda x, y: z3.UDiv(x, y), lambda x, y: z3.URem(x, y)), z3.ULE(a, 64))
    res = I.run(fn, [Ref((('local', world, 'self'), [])), thr], z3.BoolVal(True))
    out = {'paths': len(res), 'queries': 0, 'failed': [], 'witnesses': {}, 'cexs': {}}
    for pc, kind, val, snap in res:
        s = z3.Solver()
        s.set('timeout', timeout_ms)
        s.add(pre, pc)
        out['queries'] += 1
        if kind == 'panic':
            if s.check() != z3.unsat:
                out['failed'].append('panic:query ' + val[:40])
            continue
        it = val
        assert isinstance(it, Opaque) and it.kind == 'iter', it
        for k in range(K):
            item = [Ref((('val', bv(k)), [])), Ref((('val', m.vals[k]), []))]
            keep, pan = I.run_closure(clo, it.pred, item)
            returned = z3.And(present[k], keep)
            # integer form of the thresholds (exact in this domain): 64*T >= a*n ; T*width > n ; 64*width*T < (a*width - 64)*n
            Tk = T[k]
            frequent = z3.And(z3.UGE(64 * Tk, a * n), z3.UGT(Tk * width_c, n))
            rare = z3.And(z3.UGE(a * width_c, 64), z3.ULT(64 * width_c * Tk, (a * width_c - 64) * n))
            goals = (('query_contains_every_frequent_element', z3.Implies(frequent, returned)),
                     ('query_contains_no_gross_intruder', z3.Implies(rare, z3.Not(returned))),
                     ('query_only_tracked_elements', z3.Implies(returned, present[k])))
            # case split over the 65 thresholds a/64: every multiplication becomes one by a constant
            for a_c in (thresholds or range(65)):
                sub = lambda e: z3.simplify(z3.substitute(e, (a, bv(a_c))))
                base = [sub(pre), sub(pc)]
                for tag, post in goals:
                    out['queries'] += 1
                    _t = time.time()
                    r, mm = solve(base + [sub(z3.Not(post))], timeout_ms, z3_first_ms=1500)
                    if time.time() - _t > 3:
                        import sys as _s
                        print('slow query k=%d a=%d %s %s %.1fs' % (k, a_c, tag, r, time.time() - _t), file=_s.stderr, flush=True)
                    if r == z3.sat and tag not in out['failed']:
                        out['failed'].append(tag)
                        out['cexs'][tag] = cex_of(mm, present, f, d, T, n, width, None, {'op': 'query', 'a64': a_c, 'key': k})
                    elif r == z3.unknown and ('UNKNOWN:' + tag) not in out['failed']:
                        out['failed'].append('UNKNOWN:' + tag)
                if a_c in (16, 48) and k == 0:
                    if solve(base + [sub(frequent)], timeout_ms)[0] == z3.sat:
                        out['witnesses']['frequent_exists'] = 1
                    if solve(base + [sub(rare), present[k]], timeout_ms)[0] == z3.sat:
                        out['witnesses']['rare_tracked_exists'] = 1
    out['wall_s'] = round(time.time() - t0, 1)
    return out


def run(fns, unit):
    tmo = unit.get('solver_timeout_ms', 600000)
    what = unit['what_m']
    if what == 'add':
        r = run_add(fns, tmo)
        r['queries'] += 2
        if not lemma_obligation():
            r['failed'].append('MODEL: division successor lemma not discharged')
        return r
    if what == 'new_clear_clone':
        return run_new(fns, tmo)
    if what == 'query':
        return run_query(fns, unit['width'], tmo, unit.get('thresholds'))
    return {'error': 'unknown lossy unit'}


# --------------------------------------------------------------------------- translator validation
def eval_concrete_add(fns, case):
    """case: width, n, known [[k,f,d]...], y -> post-state through the encoding (unique feasible path)."""
    I = LossyInterp(fns, K)
    add = I.find(r'lossycounter::<impl.*>::add$')
    present, f, d, T, n, width = state()
    eps = z3.FP('eps', z3.Float64())
    y = z3.BitVec('y', 64)
    m = MapObj(K, present, [Struct('KnownEntry', [f[k], d[k]]) for k in range(K)])
    world = {'locals': {'self': Struct('LossyCounter', [eps, m, n, width])}}
    I.world = world
    kn = {k: (ff, dd) for k, ff, dd in case['known']}
    n1 = case['n'] + 1
    w = case['width']
    pins = [n == case['n'], width == w, y == case['y'], UDIV(bv(n1), bv(w)) == n1 // w, UREM(bv(n1), bv(w)) == n1 % w]
    for k in range(K):
        pins.append(present[k] == (k in kn))
        pins += [f[k] == kn.get(k, (0, 0))[0], d[k] == kn.get(k, (0, 0))[1]]
    res = I.run(add, [Ref((('local', world, 'self'), [])), y], z3.And(pins))
    found = []
    for pc, kind, val, snap in res:
        r, mdl = solve(pins + [pc], 60000)
        if r == z3.sat:
            found.append((kind, val, snap, mdl))
    if len(found) != 1:
        return {'error': 'expected one feasible path, got %d' % len(found)}
    kind, val, snap, mdl = found[0]
    if kind == 'panic':
        return {'result': 'panic'}
    g = lambda e: mdl.eval(e, model_completion=True)
    st = snap['self']
    m2 = st.fields[1]
    known = sorted([k, g(m2.vals[k].fields[0]).as_long(), g(m2.vals[k].fields[1]).as_long()] for k in range(K) if z3.is_true(g(m2.present[k])))
    return {'result': 'true' if z3.is_true(g(val)) else 'false', 'n': g(st.fields[2]).as_long(), 'known': known}


def random_case(rng):
    w = rng.choice([1, 2, 3, 4, 5])
    n = rng.randrange(0, 12)
    known = []
    for k in range(K):
        if rng.random() < 0.6:
            known.append([k, rng.randrange(1, 5), rng.randrange(0, 3)])
    return {'op': 'add', 'width': w, 'n': n, 'known': known, 'y': rng.randrange(K), 'T': [0, 0, 0]}
