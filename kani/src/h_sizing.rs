//! C07 (usability and structural part): filters built from accuracy targets are
//! usable for every admissible (n, p); fingerprint / quotient-remainder structure.
use crate::models::*;
use crate::vsrc::*;
use pdatastructs::filters::bloomfilter::BloomFilter;
use pdatastructs::filters::cuckoofilter::CuckooFilter;
use pdatastructs::filters::quotientfilter::QuotientFilter;
use pdatastructs::filters::Filter;

fn any_p(min_exp: i32) -> f64 {
    let p = any_f64();
    asm!(p > 0.0 && p < 1.0);
    // p >= 2^min_exp
    let lo = f64::from_bits(((1023 + min_exp) as u64) << 52);
    asm!(p >= lo);
    p
}

/// BloomFilter::with_properties(n, p): at least one hash function and one bit for every admissible (n, p).
/// (That insert/query do not panic on any filter with k >= 1 and m >= 1 is what the Bloom step harnesses of C01
/// establish from arbitrary states; here the hasher is the constant-zero one so that only the sizing arithmetic is symbolic.)
harness!(sizing_bloom_usable, unwind 12, ln, {
    let n = any_usize();
    asm!(n >= 1 && n <= 16);
    let p = any_p(-8);
    let f = BloomFilter::<Elem, IterBH>::with_properties_and_hash(n, p, IterBH { salt: 0 });
    chk!("at_least_one_hash_function", f.k() >= 1);
    chk!("at_least_one_bit", f.m() >= 1);
    chk!("k_bounded", f.k() <= 9);
    // the optimum is k = log2(1/p) hash functions; k may be truncated or rounded (comparisons with powers of two only: exact)
    let (mut e, mut pw) = (0usize, 1.0f64); // 2^-(e+1) < p <= 2^-e = pw
    for _ in 0..9 {
        if p <= pw * 0.5 {
            pw *= 0.5;
            e += 1;
        }
    }
    let k = f.k();
    chk!("k_within_one_of_optimum", if e == 0 { k == 1 } else { k == e || (k == e + 1 && p < pw) });
    cov!("p_above_half", p > 0.5);
    cov!("n1_p09", n == 1 && p > 0.9);
    cov!("p_small", p < 0.01 && n == 16);
});

fn cuckoo_usable(eight: bool) {
    let n = any_usize();
    asm!(n >= 1 && n <= 1024);
    let p = any_p(-40);
    let bh = CkBH { tab: any_u64() };
    let f = if eight {
        CuckooFilter::<Elem, SymRng, CkBH>::with_properties_and_hash_8(p, n, SymRng, bh)
    } else {
        CuckooFilter::<Elem, SymRng, CkBH>::with_properties_and_hash_4(p, n, SymRng, bh)
    };
    let bs = if eight { 8 } else { 4 };
    chk!("bucketsize", f.bucketsize() == bs);
    chk!("fingerprint_bits_in_range", f.l_fingerprint() >= 2 && f.l_fingerprint() <= 64);
    chk!("n_buckets_power_of_two", f.n_buckets() >= 2 && f.n_buckets().is_power_of_two());
    // enough slots for n elements at the target load factor: slots * load >= n
    let slots = f.n_buckets() * bs;
    chk!("capacity_for_expected_elements", (slots as f64) * (if eight { 0.98 } else { 0.95 }) >= n as f64);
    // fingerprint long enough for the target rate: 2*bs / 2^l <= p   <=>   2^l * p >= 2*bs
    let l = f.l_fingerprint();
    let two_l = f64::from_bits(((1023 + l as u64) as u64) << 52);
    chk!("fingerprint_long_enough_for_rate", two_l * p >= (2 * bs) as f64);
    chk!("fingerprint_not_wastefully_long", l <= 3 || (two_l / 2.0) * p < (2 * bs) as f64 * 1.0000001);
    cov!("p_above_half", p > 0.5);
    cov!("n1", n == 1);
    cov!("l_large", l >= 40);
}
harness!(sizing_cuckoo4_usable, unwind 4, ln, { cuckoo_usable(false) });
harness!(sizing_cuckoo8_usable, unwind 4, ln, { cuckoo_usable(true) });

/// QuotientFilter: (quotient, remainder) is exactly the split of the low q+r hash bits (hence
/// injective on them and independent of the higher bits) for every admissible (q, r).
harness!(sizing_qf_quotient_remainder_kernel, unwind 4, {
    let q = any_usize();
    asm!(q >= 1 && q <= 7);
    let r = any_usize();
    asm!(r >= 1 && r <= 64 && q + r <= 64);
    let f = QuotientFilter::<H64, IdBH>::with_params_and_hash(q, r, IdBH);
    let h = any_u64();
    let (qq, rr) = f.verif_quotient_remainder(&H64(h));
    let low = if q + r == 64 { h } else { h & ((1u64 << (q + r)) - 1) };
    let rmask = if r == 64 { u64::MAX } else { (1u64 << r) - 1 };
    chk!("quotient_is_bits_above_remainder", qq as u64 == if r == 64 { 0 } else { low >> r });
    chk!("remainder_is_low_bits", rr as u64 == (low & rmask));
    chk!("quotient_in_range", qq < (1usize << q));
    cov!("uses_all_64_bits", q + r == 64);
    cov!("trash_bits_set", q + r < 64 && (h >> (q + r)) != 0);
});

/// C07 "BloomFilter::len() tracks the number of distinct inserted elements": len() is the standard estimate
/// -(m/k) ln(1 - X/m) of the number of insertions from the number X of set bits. Decided for m = 64, k in 1..=3 and EVERY bit
/// pattern, against the band that contains ln (so a changed constant, a swapped m/k or a wrong argument shows).
harness!(sizing_bloom_len_estimate, unwind 67, ln, {
    let k = any_usize();
    asm!(k >= 1 && k <= 3);
    let mut f = BloomFilter::<Elem, IterBH>::with_params_and_hash(64, k, IterBH { salt: 0 });
    let word = any_u64();
    asm!(word != u64::MAX);
    {
        let bs = f.verif_bits_mut();
        for i in 0..64 {
            bs.set(i, (word >> i) & 1 == 1);
        }
    }
    // the admissible interval for every (k, X) is computed from CONCRETE values (constant-folded), so that the only symbolic
    // float arithmetic left is the one inside len() itself
    let mut lo_t = [[0.0f64; 64]; 3];
    let mut hi_t = [[0.0f64; 64]; 3];
    for kk in 0..3 {
        for i in 0..64 {
            let (lo, hi) = ln_band(1.0 - (i as f64) / 64.0);
            let c = 64.0 / ((kk + 1) as f64);
            lo_t[kk][i] = c * (-hi) - 1.0 - 1e-6;
            hi_t[kk][i] = c * (-lo) + 1e-6;
        }
    }
    let xi = word.count_ones() as usize;
    let est = f.len() as f64;
    chk!("len_estimate_not_below_formula", est >= lo_t[k - 1][xi]);
    chk!("len_estimate_not_above_formula", est <= hi_t[k - 1][xi]);
    cov!("half_full", word.count_ones() == 32);
    cov!("one_bit", word.count_ones() == 1);
});

/// C07 rate, Bloom: m must not fall short of the optimum n ln(1/p) / ln(2)^2 (beyond the width of the band that contains ln and
/// the integer truncation) - a filter with fewer bits cannot meet p whatever k is. p ranges over the dyadic grid a/256 so
/// that the float multipliers have short operands (with an arbitrary 53-bit p this harness does not finish in 40 min).
harness!(sizing_bloom_rate, unwind 12, ln, {
    let n = any_usize();
    asm!(n >= 1 && n <= 16);
    let a = any_u8();
    asm!(a >= 1);
    let p = (a as f64) / 256.0;
    let f = BloomFilter::<Elem, IterBH>::with_properties_and_hash(n, p, IterBH { salt: 0 });
    let (_lo, hi) = ln_band(p);
    let m_need = (n as f64) * (-hi) / (std::f64::consts::LN_2 * std::f64::consts::LN_2);
    chk!("m_adequate_for_rate", f.m() as f64 >= 0.999 * m_need - 1.0);
    cov!("p_1_percent", a <= 3 && n == 16);
    cov!("p_half", a == 128);
});
