//! Value source shared by the Kani harnesses and the native replay driver.
//!
//! Under `cfg(kani)` every `any_*` is `kani::any()`, `chk!` is `kani::assert`,
//! `asm!` is `kani::assume` and `cov!` is `kani::cover!`.  In a native build the
//! same harness bodies read the values of a counterexample from a thread-local
//! script (the byte vectors Kani's concrete playback prints, in call order) and
//! record which tagged checks fail, so that a solver counterexample is
//! re-executed against the real crate before it is reported.

#[cfg(not(kani))]
pub mod native {
    use std::cell::RefCell;

    #[derive(Default, Debug)]
    pub struct State {
        pub script: Vec<Vec<u8>>,
        pub pos: usize,
        pub underrun: bool,
        pub size_mismatch: bool,
        pub assume_failed: Option<&'static str>,
        pub failed: Vec<&'static str>,
        pub passed: usize,
        pub covers_hit: Vec<&'static str>,
        pub env_skipped: usize,
        pub random: Option<u64>,
    }

    thread_local! {
        pub static ST: RefCell<State> = RefCell::new(State::default());
    }

    pub fn load(script: Vec<Vec<u8>>) {
        ST.with(|s| {
            *s.borrow_mut() = State {
                script,
                ..State::default()
            }
        });
    }

    pub fn take() -> State {
        ST.with(|s| std::mem::take(&mut *s.borrow_mut()))
    }

    /// Pop the next value of `n` bytes (little endian), zero-extended.
    pub fn load_random(seed: u64) {
        ST.with(|s| {
            *s.borrow_mut() = State {
                random: Some(seed | 1),
                ..State::default()
            }
        });
    }

    pub fn pop(n: usize) -> u128 {
        ST.with(|s| {
            let mut s = s.borrow_mut();
            if let Some(mut x) = s.random {
                // xorshift64*: pseudo-random values for the "required witness" sampling mode
                let mut out: u128 = 0;
                for k in 0..2 {
                    x ^= x >> 12;
                    x ^= x << 25;
                    x ^= x >> 27;
                    out |= (x.wrapping_mul(0x2545F4914F6CDD1D) as u128) << (64 * k);
                }
                s.random = Some(x);
                s.pos += 1;
                // bias towards small values half of the time (bounds in assumptions are mostly small)
                let small = (out >> 100) & 1 == 1;
                let v = if n >= 16 { out } else { out & ((1u128 << (8 * n)) - 1) };
                return if small { v & 0x3f } else { v };
            }
            // 12-byte entries are environment records of float stubs (ln/log2): natively
            // the real function runs instead, nothing is drawn.
            while s.pos < s.script.len() && s.script[s.pos].len() == 12 {
                s.pos += 1;
                s.env_skipped += 1;
            }
            if s.pos >= s.script.len() {
                s.underrun = true;
                drop(s);
                // the counterexample trace ends here (CBMC stops at the failing
                // assertion): nothing after this point is part of the replay.
                std::panic::panic_any(UnderrunStop);
            }
            let v = s.script[s.pos].clone();
            s.pos += 1;
            if v.len() != n {
                s.size_mismatch = true;
            }
            let mut x: u128 = 0;
            for (i, b) in v.iter().enumerate().take(16) {
                x |= (*b as u128) << (8 * i);
            }
            x
        })
    }

    /// Size in bytes of the next script entry (0 if none).
    pub fn peek_len() -> usize {
        ST.with(|s| {
            let s = s.borrow();
            let mut p = s.pos;
            while p < s.script.len() && s.script[p].len() == 12 {
                p += 1;
            }
            s.script.get(p).map(|v| v.len()).unwrap_or(0)
        })
    }

    pub fn assume(tag: &'static str, c: bool) {
        ST.with(|s| {
            let mut s = s.borrow_mut();
            if !c && s.assume_failed.is_none() {
                s.assume_failed = Some(tag);
            }
        });
        if !c {
            // stop executing the harness body: the script does not describe a
            // valid run from here on.
            std::panic::panic_any(AssumeStop);
        }
    }

    pub struct AssumeStop;
    pub struct UnderrunStop;

    pub fn check(tag: &'static str, c: bool) {
        ST.with(|s| {
            let mut s = s.borrow_mut();
            if c {
                s.passed += 1;
            } else {
                s.failed.push(tag);
            }
        });
    }

    pub fn cover(tag: &'static str, c: bool) {
        if c {
            ST.with(|s| s.borrow_mut().covers_hit.push(tag));
        }
    }
}

macro_rules! any_fns {
    ($($name:ident : $t:ty, $n:expr;)*) => {$(
        #[inline]
        pub fn $name() -> $t {
            #[cfg(kani)]
            { kani::any::<$t>() }
            #[cfg(not(kani))]
            { native::pop($n) as $t }
        }
    )*};
}

any_fns! {
    any_u8: u8, 1;
    any_u16: u16, 2;
    any_u32: u32, 4;
    any_u64: u64, 8;
    any_usize: usize, 8;
    any_u128: u128, 16;
}

#[inline]
pub fn any_i8() -> i8 {
    any_u8() as i8
}

#[inline]
pub fn any_bool() -> bool {
    #[cfg(kani)]
    {
        kani::any::<bool>()
    }
    #[cfg(not(kani))]
    {
        native::pop(1) & 1 == 1
    }
}

/// Arbitrary `f64` bit pattern.
#[inline]
pub fn any_f64() -> f64 {
    #[cfg(kani)]
    {
        kani::any::<f64>()
    }
    #[cfg(not(kani))]
    {
        f64::from_bits(native::pop(8) as u64)
    }
}

/// Tagged assertion (the property's own obligations).
#[macro_export]
macro_rules! chk {
    ($tag:literal, $c:expr) => {{
        let c: bool = $c;
        #[cfg(kani)]
        {
            // Kani ASSUMES an assertion after checking it, so a failing obligation hides every later one that fails only on
            // the same inputs. When the runner re-decides a harness for a property to which an already-failed obligation does
            // not belong, it rebuilds with VERIF_SKIP_TAGS=<tag,...>: those obligations are then neither asserted nor assumed.
            const SKIP: bool = $crate::vsrc::tag_skipped($tag);
            if !SKIP {
                kani::assert(c, $tag);
            }
        }
        #[cfg(not(kani))]
        $crate::vsrc::native::check($tag, c);
    }};
}

/// compile-time membership test of `tag` in the comma-separated list VERIF_SKIP_TAGS (unset = nothing skipped)
pub const fn tag_skipped(tag: &str) -> bool {
    let list = match option_env!("VERIF_SKIP_TAGS") {
        Some(l) => l.as_bytes(),
        None => return false,
    };
    let t = tag.as_bytes();
    let mut i = 0;
    while i <= list.len() {
        // candidate item starts at i, ends at next comma / end
        let mut j = i;
        while j < list.len() && list[j] != b',' {
            j += 1;
        }
        if j - i == t.len() {
            let mut k = 0;
            let mut same = true;
            while k < t.len() {
                if list[i + k] != t[k] {
                    same = false;
                }
                k += 1;
            }
            if same && t.len() > 0 {
                return true;
            }
        }
        i = j + 1;
    }
    false
}

/// Assumption (input constraint / representation invariant).
#[macro_export]
macro_rules! asm {
    ($c:expr) => {{
        let c: bool = $c;
        #[cfg(kani)]
        kani::assume(c);
        #[cfg(not(kani))]
        $crate::vsrc::native::assume(stringify!($c), c);
    }};
}

/// Reachability witness.
#[macro_export]
macro_rules! cov {
    ($tag:literal, $c:expr) => {{
        let c: bool = $c;
        #[cfg(kani)]
        kani::cover!(c, $tag);
        #[cfg(not(kani))]
        $crate::vsrc::native::cover($tag, c);
    }};
}
