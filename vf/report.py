"""python3-vt -m vf.report : markdown summary of the claimed checks from props + the latest evidence files."""
import json, os
from .common import VERIF, EVIDENCE
from . import props


def main():
    print("| id | engines | units quick / thorough | last quick run: pass/known/viol/inconcl, wall | bounds (quick) |")
    print("|---|---|---|---|---|")
    for pid in sorted(props.PROPS):
        P = props.PROPS[pid]
        q = props.select(pid, "quick", 0)
        t = props.select(pid, "thorough", 0)
        eng = "+".join(sorted({u["engine"] for u in t}))
        evp = os.path.join(EVIDENCE, pid + ".json")
        last = "—"
        if os.path.exists(evp):
            ev = json.load(open(evp))
            us = ev["coverage"]["units"]
            last = "%d/%d/%d/%d, %ds" % (sum(1 for u in us if u["status"] == "pass"), len(ev["coverage"].get("known_findings_hit", [])), ev.get("violations", 0),
                                         len(ev["coverage"].get("inconclusive", [])), ev["wall_s"])
        b = P.get("bounds")
        if isinstance(b, dict):
            b = b.get("quick")
        print("| %s | %s | %d / %d | %s | %s |" % (pid, eng, len(q), len(t), last, (b or "").replace("|", "/")))


if __name__ == "__main__":
    main()
