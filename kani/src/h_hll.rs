//! HyperLogLog: C17 (register semantics), C06 (merge = register-wise max), C19, and
//! the no-panic clause used by C20 (count/add/merge on any valid-shaped sketch).
use crate::models::*;
use crate::vsrc::*;
use pdatastructs::hyperloglog::HyperLogLog;

type H = HyperLogLog<H64, IdBH>;
const B: usize = 4;
const M: usize = 16;

fn arb() -> (H, [u8; M]) {
    let mut regs = [0u8; M];
    for i in 0..M {
        regs[i] = any_u8();
    }
    (H::with_registers_and_hash(B, regs.to_vec(), IdBH), regs)
}

fn any_reg() -> usize {
    let k = any_usize();
    asm!(k < M);
    k
}

/// Specification of the rank: 1-based position of the first set bit among the upper
/// 64-b bits, 64-b+1 if there is none.
fn spec_rank(h: u64) -> u8 {
    let w = h >> B;
    let mut r: u8 = 1;
    let mut bit: i32 = 63 - B as i32;
    while bit >= 0 {
        if (w >> bit) & 1 == 1 {
            return r;
        }
        r += 1;
        bit -= 1;
    }
    (64 - B + 1) as u8
}

harness!(hll_add_hashed_b4, unwind 62, {
    let (mut h, regs) = arb();
    let x = any_u64();
    let cap = h.registers().len();
    h.add_hashed(x);
    let j = (x & (M as u64 - 1)) as usize;
    let rank = spec_rank(x);
    let k = any_reg();
    let expect = if k == j { regs[k].max(rank) } else { regs[k] };
    chk!("register_is_max_of_rank", h.registers()[k] == expect);
    chk!("rank_range", rank >= 1 && rank as usize <= 64 - B + 1);
    chk!("len_unchanged", h.registers().len() == cap && h.m() == M && h.b() == B);
    cov!("rank_61", rank == 61);
    cov!("rank_1", rank == 1);
    cov!("register_raised", h.registers()[j] > regs[j]);
    cov!("register_kept", regs[j] > rank);
});

harness!(hll_add_is_add_hashed_b4, unwind 18, {
    let (mut h, _regs) = arb();
    let mut g = h.clone();
    let x = any_u64();
    h.add(&H64(x));
    g.add_hashed(x);
    let k = any_reg();
    chk!("add_is_add_hashed_of_hash_one", h.registers()[k] == g.registers()[k]);
});

harness!(hll_order_idempotence_b4, unwind 18, {
    let (h0, _regs) = arb();
    let (x, y) = (any_u64(), any_u64());
    let mut a = h0.clone();
    a.add_hashed(x);
    a.add_hashed(y);
    let mut b = h0.clone();
    b.add_hashed(y);
    b.add_hashed(x);
    let mut c = h0.clone();
    c.add_hashed(x);
    c.add_hashed(y);
    c.add_hashed(x);
    c.add_hashed(y);
    let k = any_reg();
    chk!("order_independent", a.registers()[k] == b.registers()[k]);
    chk!("repetition_independent", a.registers()[k] == c.registers()[k]);
    cov!("same_register", (x & 15) == (y & 15) && x != y);
});

harness!(hll_reconstruct_b4, unwind 18, {
    let (h, _regs) = arb();
    let r = H::with_registers_and_hash(h.b(), h.registers().to_vec(), *h.buildhasher());
    let k = any_reg();
    chk!("reconstruct_registers", r.registers()[k] == h.registers()[k]);
    chk!("reconstruct_cfg", r.b() == h.b() && r.m() == h.m());
    chk!("reconstruct_eq", r == h);
});

harness!(hll_merge_max_b4, unwind 18, {
    let (mut a, ra) = arb();
    let (b, rb) = arb();
    let cap = a.registers().len();
    a.merge(&b);
    let k = any_reg();
    chk!("merge_is_max", a.registers()[k] == ra[k].max(rb[k]));
    chk!("merge_other_unchanged", b.registers()[k] == rb[k]);
    chk!("merge_len_unchanged", a.registers().len() == cap);
    // idempotent: merging again / with itself changes nothing
    let before = a.registers()[k];
    a.merge(&b);
    chk!("merge_twice_idempotent", a.registers()[k] == before);
    let c = a.clone();
    a.merge(&c);
    chk!("merge_self_idempotent", a.registers()[k] == before);
    cov!("takes_other", rb[k] > ra[k]);
    cov!("keeps_own", ra[k] > rb[k]);
});

harness!(hll_merge_algebra_b4, unwind 18, {
    let (a, _) = arb();
    let (b, _) = arb();
    let (c, _) = arb();
    let k = any_reg();
    let mut ab = a.clone();
    ab.merge(&b);
    let mut ba = b.clone();
    ba.merge(&a);
    chk!("merge_commutative", ab.registers()[k] == ba.registers()[k]);
    let mut ab_c = ab.clone();
    ab_c.merge(&c);
    let mut bc = b.clone();
    bc.merge(&c);
    let mut a_bc = a.clone();
    a_bc.merge(&bc);
    chk!("merge_associative", ab_c.registers()[k] == a_bc.registers()[k]);
});

/// C06: add_hashed on an arbitrary sketch == merge with the singleton sketch.
harness!(hll_add_is_merge_singleton_b4, unwind 18, {
    let (mut a, _) = arb();
    let x = any_u64();
    let mut s = H::with_hash(B, IdBH);
    chk!("fresh_is_empty", s.is_empty());
    s.add_hashed(x);
    let mut m = a.clone();
    m.merge(&s);
    a.add_hashed(x);
    let k = any_reg();
    chk!("add_is_merge_with_singleton", a.registers()[k] == m.registers()[k]);
    chk!("singleton_not_empty", !s.is_empty());
});

harness!(hll_clear_clone_b4, unwind 18, {
    let (mut h, regs) = arb();
    let k = any_reg();
    let c = h.clone();
    chk!("clone_equal", c.registers()[k] == regs[k] && c.b() == B);
    let x = any_u64();
    if any_bool() {
        h.add_hashed(x);
    } else {
        h.clear();
    }
    chk!("clone_independent", c.registers()[k] == regs[k]);
    let mut c2 = h.clone();
    let v = h.registers()[k];
    c2.add_hashed(x);
    chk!("orig_independent", h.registers()[k] == v);
    let fresh = H::with_hash(B, IdBH);
    h.clear();
    chk!("clear_zero", h.registers()[k] == 0);
    chk!("clear_eq_fresh", h == fresh);
    chk!("clear_is_empty", h.is_empty() && fresh.is_empty());
    chk!("clear_len", h.registers().len() == M);
    let mut nonzero = false;
    for i in 0..M {
        if regs[i] != 0 {
            nonzero = true;
        }
    }
    chk!("is_empty_iff_all_zero", c.is_empty() == !nonzero);
    cov!("was_nonzero", regs[k] != 0);
});

#[cfg(kani)]
pub fn naive_count(haystack: &[u8], needle: u8) -> usize {
    let mut n = 0;
    for b in haystack {
        if *b == needle {
            n += 1;
        }
    }
    n
}

/// count() returns normally for any register contents (b = 4).
#[cfg_attr(kani, kani::proof)]
#[cfg_attr(kani, kani::unwind(18))]
#[cfg_attr(kani, kani::stub(bytecount::count, naive_count))]
pub fn hll_count_no_panic_b4() {
    let (h, _regs) = arb();
    let c = h.count();
    chk!("count_returns", c == c);
    let e = H::with_hash(B, IdBH);
    chk!("empty_counts_zero", e.count() == 0);
}
