//! CountMinSketch: C02 (bounds, inductive step with ghost counts), C06 (merge =
//! cell-wise sum, add_n = sum with a singleton sketch), C11 (no growth), C19.
use crate::models::*;
use crate::vsrc::*;
use pdatastructs::countminsketch::CountMinSketch;
use pdatastructs::num_traits::{CheckedAdd, One, Unsigned, Zero};

/// Counter types the sketch is instantiated with.
pub trait Cnt: CheckedAdd + Clone + One + Ord + Unsigned + Zero + Copy {
    fn any() -> Self;
    fn wide(self) -> u128;
    fn max_wide() -> u128;
}
macro_rules! cnt {
    ($t:ty, $f:ident) => {
        impl Cnt for $t {
            fn any() -> Self {
                $f() as $t
            }
            fn wide(self) -> u128 {
                self as u128
            }
            fn max_wide() -> u128 {
                <$t>::MAX as u128
            }
        }
    };
}
cnt!(u8, any_u8);
cnt!(u16, any_u16);
cnt!(u32, any_u32);
cnt!(u64, any_u64);
cnt!(usize, any_usize);

type S<C> = CountMinSketch<Elem, C, IterBH>;

/// Arbitrary table whose rows all sum to the same total `N` (returned).
/// Every such table with per-row sums equal is what a history produces: each
/// add_n adds n to exactly one cell per row.  (The converse — every such table
/// is reachable — holds too: add elements colliding row-wise as needed; the
/// harness hasher is arbitrary per element.)
fn arb<C: Cnt>(w: usize, d: usize, bh: IterBH) -> (S<C>, u128) {
    let mut s = S::<C>::with_params_and_hasher(w, d, bh);
    let mut total: u128 = 0;
    for r in 0..d {
        let mut sum: u128 = 0;
        for c in 0..w {
            let v = C::any();
            s.verif_table_mut()[r * w + c] = v;
            sum += v.wide();
        }
        if r == 0 {
            total = sum;
        } else {
            asm!(sum == total);
        }
    }
    asm!(total <= C::max_wide());
    (s, total)
}

fn row_sum<C: Cnt>(s: &S<C>, w: usize, r: usize) -> u128 {
    let mut sum: u128 = 0;
    for c in 0..w {
        sum += s.verif_table()[r * w + c].wide();
    }
    sum
}

fn any_cell(w: usize, d: usize) -> usize {
    let i = any_usize();
    asm!(i < w * d);
    i
}

/// C02: one add_n from an arbitrary valid state.
fn step_add<C: Cnt>(w: usize, d: usize) {
    let bh = any_iterbh();
    let (mut s, total) = arb::<C>(w, d, bh);
    let x = any_elem();
    let y = any_elem();
    let true_x = C::any();
    let qx0 = s.query_point(&x);
    asm!(qx0 >= true_x);
    chk!("pre_upper_bound", qx0.wide() <= total);
    let n = C::any();
    asm!(total + n.wide() <= C::max_wide());
    let cell = any_cell(w, d);
    let cell_before = s.verif_table()[cell];
    let cap_before = s.verif_table().capacity();
    let r = s.add_n(&y, &n);
    let qy = s.query_point(&y);
    chk!("add_returns_query_point", r == qy);
    let same = x == y;
    let true_x2 = if same { true_x.wide() + n.wide() } else { true_x.wide() };
    let qx = s.query_point(&x);
    chk!("never_underestimates", qx.wide() >= true_x2);
    chk!("never_exceeds_total", qx.wide() <= total + n.wide());
    chk!("single_element_exact", !(same && true_x.wide() == total) || qx.wide() == total + n.wide());
    let r_any = any_usize();
    asm!(r_any < d);
    chk!("row_sum_invariant", row_sum(&s, w, r_any) == total + n.wide());
    chk!("cells_only_grow", s.verif_table()[cell] >= cell_before);
    chk!("len_unchanged", s.verif_table().len() == w * d && s.w() == w && s.d() == d);
    chk!("capacity_unchanged", s.verif_table().capacity() == cap_before);
    cov!("same_element", same && n.wide() > 0);
    cov!("collision_other_element", !same && qx > qx0);
    cov!("overestimate", qx.wide() > true_x2);
}

/// C02: `add` is `add_n(1)`.
fn step_add_one<C: Cnt>(w: usize, d: usize) {
    let bh = any_iterbh();
    let (mut s, total) = arb::<C>(w, d, bh);
    asm!(total + 1 <= C::max_wide());
    let mut t = s.clone();
    let y = any_elem();
    let r1 = s.add(&y);
    let r2 = t.add_n(&y, &C::one());
    let cell = any_cell(w, d);
    chk!("add_is_add_n_one_ret", r1 == r2);
    chk!("add_is_add_n_one_cell", s.verif_table()[cell] == t.verif_table()[cell]);
    chk!("add_row_sum", row_sum(&s, w, 0) == total + 1);
}

/// C02/C06: merge from two arbitrary valid states.
fn step_merge<C: Cnt>(w: usize, d: usize) {
    let bh = any_iterbh();
    let (mut a, ta) = arb::<C>(w, d, bh);
    let (b, tb) = arb::<C>(w, d, bh);
    asm!(ta + tb <= C::max_wide());
    let x = any_elem();
    let (true_a, true_b) = (C::any(), C::any());
    asm!(a.query_point(&x) >= true_a);
    asm!(b.query_point(&x) >= true_b);
    let cell = any_cell(w, d);
    let (ca, cb) = (a.verif_table()[cell], b.verif_table()[cell]);
    let cap_before = a.verif_table().capacity();
    a.merge(&b);
    chk!("merge_cellwise_sum", a.verif_table()[cell].wide() == ca.wide() + cb.wide());
    chk!("merge_other_unchanged", b.verif_table()[cell] == cb);
    let qx = a.query_point(&x);
    chk!("merge_never_underestimates", qx.wide() >= true_a.wide() + true_b.wide());
    chk!("merge_never_exceeds_total", qx.wide() <= ta + tb);
    let r_any = any_usize();
    asm!(r_any < d);
    chk!("merge_row_sum_invariant", row_sum(&a, w, r_any) == ta + tb);
    chk!("merge_len_unchanged", a.verif_table().len() == w * d);
    chk!("merge_capacity_bounded", a.verif_table().capacity() <= cap_before.max(w * d));
    cov!("both_nonzero", ca.wide() > 0 && cb.wide() > 0);
}

/// C06: add_n on an arbitrary table == table + (add_n on the zero table), cell-wise.
fn add_is_sum_with_singleton<C: Cnt>(w: usize, d: usize) {
    let bh = any_iterbh();
    let (mut s, total) = arb::<C>(w, d, bh);
    let mut z = S::<C>::with_params_and_hasher(w, d, bh);
    let y = any_elem();
    let n = C::any();
    asm!(total + n.wide() <= C::max_wide());
    let cell = any_cell(w, d);
    let before = s.verif_table()[cell];
    chk!("fresh_cell_zero", z.verif_table()[cell].wide() == 0);
    chk!("fresh_is_empty", z.is_empty());
    s.add_n(&y, &n);
    z.add_n(&y, &n);
    chk!("add_is_cellwise_sum", s.verif_table()[cell].wide() == before.wide() + z.verif_table()[cell].wide());
    cov!("cell_hit", z.verif_table()[cell].wide() > 0);
}

/// C19 (+ C02 "since the last clear"): clear == fresh, clone independent.
fn clear_clone<C: Cnt>(w: usize, d: usize) {
    let bh = any_iterbh();
    let (mut s, total) = arb::<C>(w, d, bh);
    let fresh = S::<C>::with_params_and_hasher(w, d, bh);
    let cell = any_cell(w, d);
    let v = s.verif_table()[cell];
    let c = s.clone();
    chk!("clone_equal_cell", c.verif_table()[cell] == v);
    chk!("clone_equal_cfg", c.w() == w && c.d() == d && c.buildhasher() == s.buildhasher());
    let y = any_elem();
    let n = C::any();
    asm!(total + n.wide() <= C::max_wide());
    if any_bool() {
        s.add_n(&y, &n);
    } else {
        s.clear();
    }
    chk!("clone_independent", c.verif_table()[cell] == v);
    let v2 = s.verif_table()[cell];
    let mut c2 = s.clone();
    asm!(row_sum(&c2, w, 0) + n.wide() <= C::max_wide());
    c2.add_n(&y, &n);
    chk!("orig_independent", s.verif_table()[cell] == v2);
    s.clear();
    chk!("clear_cell_zero", s.verif_table()[cell].wide() == 0);
    chk!("clear_eq_fresh", s.verif_table()[cell] == fresh.verif_table()[cell] && s.verif_table().len() == fresh.verif_table().len());
    chk!("clear_is_empty", s.is_empty());
    let x = any_elem();
    chk!("clear_query_zero", s.query_point(&x).wide() == 0);
    chk!("is_empty_iff_zero", c.is_empty() == (total == 0));
    cov!("cell_nonzero", v.wide() > 0);
    cov!("was_empty", total == 0);
}

macro_rules! cms_cfg {
    ($w:literal, $d:literal, $c:ty, $u:literal, $a:ident, $b:ident, $m:ident, $s:ident, $cc:ident) => {
        harness!($a, unwind $u, { step_add::<$c>($w, $d) });
        harness!($b, unwind $u, { step_add_one::<$c>($w, $d) });
        harness!($m, unwind $u, { step_merge::<$c>($w, $d) });
        harness!($s, unwind $u, { add_is_sum_with_singleton::<$c>($w, $d) });
        harness!($cc, unwind $u, { clear_clone::<$c>($w, $d) });
    };
}

cms_cfg!(3, 2, u8, 8, cms_add_w3d2_u8, cms_add1_w3d2_u8, cms_merge_w3d2_u8, cms_singleton_w3d2_u8, cms_clear_clone_w3d2_u8);
cms_cfg!(2, 3, u64, 8, cms_add_w2d3_u64, cms_add1_w2d3_u64, cms_merge_w2d3_u64, cms_singleton_w2d3_u64, cms_clear_clone_w2d3_u64);
cms_cfg!(1, 1, u8, 4, cms_add_w1d1_u8, cms_add1_w1d1_u8, cms_merge_w1d1_u8, cms_singleton_w1d1_u8, cms_clear_clone_w1d1_u8);
cms_cfg!(3, 2, u16, 8, cms_add_w3d2_u16, cms_add1_w3d2_u16, cms_merge_w3d2_u16, cms_singleton_w3d2_u16, cms_clear_clone_w3d2_u16);
cms_cfg!(2, 3, u32, 8, cms_add_w2d3_u32, cms_add1_w2d3_u32, cms_merge_w2d3_u32, cms_singleton_w2d3_u32, cms_clear_clone_w2d3_u32);
cms_cfg!(3, 2, usize, 8, cms_add_w3d2_usize, cms_add1_w3d2_usize, cms_merge_w3d2_usize, cms_singleton_w3d2_usize, cms_clear_clone_w3d2_usize);
cms_cfg!(2, 3, u8, 8, cms_add_w2d3_u8, cms_add1_w2d3_u8, cms_merge_w2d3_u8, cms_singleton_w2d3_u8, cms_clear_clone_w2d3_u8);
cms_cfg!(3, 2, u64, 8, cms_add_w3d2_u64, cms_add1_w3d2_u64, cms_merge_w3d2_u64, cms_singleton_w3d2_u64, cms_clear_clone_w3d2_u64);
// wide and shallow (w > d*d): row-oriented loops that confuse w and d leave columns >= d*d untouched only on such shapes
cms_cfg!(5, 2, u8, 12, cms_add_w5d2_u8, cms_add1_w5d2_u8, cms_merge_w5d2_u8, cms_singleton_w5d2_u8, cms_clear_clone_w5d2_u8);
cms_cfg!(3, 1, u8, 6, cms_add_w3d1_u8, cms_add1_w3d1_u8, cms_merge_w3d1_u8, cms_singleton_w3d1_u8, cms_clear_clone_w3d1_u8);
