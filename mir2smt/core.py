"""Engine M core: textual MIR (rustc -Zunpretty=mir) -> path-forking symbolic interpreter over z3 terms.

Integers are bit-vectors of their Rust width; `assert` terminators and panics become
'panic' results with their path condition; calls are resolved by the per-structure
subclasses (container contracts) or interpreted from the callee's own MIR."""
import re, sys, itertools
import z3

# ---------------------------------------------------------------- parsing
class Fn:
    def __init__(self, name, sig):
        self.name, self.sig, self.blocks, self.args, self.locals = name, sig, {}, [], {}

def split_top(s, sep=','):
    out, depth, cur, instr = [], 0, '', False
    i = 0
    while i < len(s):
        c = s[i]
        if instr:
            cur += c
            if c == '\\': cur += s[i+1]; i += 1
            elif c == '"': instr = False
        elif c == '"': instr = True; cur += c
        elif c in '([{<': depth += 1; cur += c
        elif c in ')]}>':
            if c == '>' and s[i-1] == '-': cur += c
            else: depth -= 1; cur += c
        elif c == sep and depth == 0: out.append(cur.strip()); cur = ''
        else: cur += c
        i += 1
    if cur.strip(): out.append(cur.strip())
    return out

PANIC_REWRITES = [
    # constant residual of the `?` operator on a unit-like error: nested parentheses would confuse the call-statement regex
    (r'const Result::<Infallible, (\w+)>::Err\(\1\)', r'const ZeroSized: residual_\1'),
    (r'(_\d+) = core::panicking::panic\(const "([^"]*)"\) -> (?:bb\d+|unwind continue);', r'assert(const false, "\2") -> [success: bb0, unwind: bb0];'),
    (r'(_\d+) = std::rt::panic_fmt\(move (_\d+)\) -> (?:bb\d+|unwind continue);', r'assert(const false, "panic_fmt") -> [success: bb0, unwind: bb0];'),
    (r'(_\d+) = core::panicking::assert_failed::<[^;]*\) -> (?:bb\d+|unwind continue);', r'assert(const false, "assert_eq failed") -> [success: bb0, unwind: bb0];'),
    (r'(_\d+) = core::panicking::panic_fmt\(move (_\d+)\) -> (?:bb\d+|unwind continue);', r'assert(const false, "panic_fmt") -> [success: bb0, unwind: bb0];'),
]

def parse_mir(text):
    for pat, rep in PANIC_REWRITES:
        text = re.sub(pat, rep, text)
    fns = {}
    cur = None; bb = None
    for line in text.split('\n'):
        m = re.match(r'^fn (.*?)\((.*)\) -> (.*) \{$', line)
        if m and not line.startswith(' '):
            cur = Fn(m.group(1), line); fns[cur.name] = cur
            for a in split_top(m.group(2)):
                am = re.match(r'(_\d+): (.*)', a)
                if am: cur.args.append(am.group(1)); cur.locals[am.group(1)] = am.group(2)
            cur.ret_ty = m.group(3)
            continue
        if cur is None: continue
        if line == '}': cur = None; continue
        m = re.match(r'^\s+let (?:mut )?(_\d+): (.*);$', line)
        if m: cur.locals[m.group(1)] = m.group(2); continue
        m = re.match(r'^    (bb\d+)(?: \(cleanup\))?: \{$', line)
        if m: bb = []; cur.blocks[m.group(1)] = bb; continue
        if re.match(r'^    \}$', line): bb = None; continue
        if bb is not None and line.startswith('        '):
            bb.append(line.strip())
    return fns

# ---------------------------------------------------------------- values
W = 64
UDIV = z3.Function('udiv64', z3.BitVecSort(64), z3.BitVecSort(64), z3.BitVecSort(64))
UREM = z3.Function('urem64', z3.BitVecSort(64), z3.BitVecSort(64), z3.BitVecSort(64))
def bv(v, w=W): return z3.BitVecVal(v, w)

class Ref:
    def __init__(self, place): self.place = place   # place = (root, [proj...]); root = ('local', frame, name) | ('obj', pyobj)
    def __repr__(self): return 'Ref(%r)' % (self.place,)

class Struct:
    def __init__(self, name, fields): self.name, self.fields = name, list(fields)
    def __repr__(self): return '%s%r' % (self.name, self.fields)

class MapObj:
    """HashMap<K,V> over key universe 0..K-1 (contract model)."""
    def __init__(self, K, present, vals): self.K, self.present, self.vals = K, list(present), list(vals)
    def copy(self): return MapObj(self.K, self.present, [copyval(v) for v in self.vals])

class Entry:
    def __init__(self, mapref, key): self.mapref, self.key = mapref, key

class Opaque:
    def __init__(self, kind, **kw): self.kind = kind; self.__dict__.update(kw)

class TableObj:
    """succinct::IntVector<u64> / Vec<uN>: fixed-length array of bit-vector terms."""
    def __init__(self, vals): self.vals = list(vals)
class BitsObj:
    """fixedbitset::FixedBitSet of fixed length: list of Bool terms."""
    def __init__(self, bits): self.bits = list(bits)
class VecObj:
    """Vec / VecDeque with a concrete number of (possibly symbolic) items."""
    def __init__(self, items): self.items = list(items)
class SeqIter:
    def __init__(self, items): self.items = list(items)
class OptionVal:
    def __init__(self, some, payload): self.some, self.payload = some, payload
class ResultVal:
    def __init__(self, ok, payload): self.ok, self.payload = ok, payload
class SetObj:
    """BTreeSet<TreeEntry> over key universe: present[k], n[k]."""
    def __init__(self, K, present, n): self.K, self.present, self.n = K, list(present), list(n)

def copyval(v):
    if v.__class__.__name__ == 'Fx': return v
    if isinstance(v, TableObj): return TableObj(v.vals)
    if isinstance(v, BitsObj): return BitsObj(v.bits)
    if isinstance(v, VecObj): return VecObj(v.items)
    if isinstance(v, SeqIter): return SeqIter(v.items)
    if isinstance(v, OptionVal): return OptionVal(v.some, v.payload)
    if isinstance(v, SetObj): return SetObj(v.K, v.present, v.n)
    if isinstance(v, Struct): return Struct(v.name, [copyval(f) for f in v.fields])
    if isinstance(v, MapObj): return v.copy()
    if isinstance(v, list): return [copyval(x) for x in v]
    return v

def ite(c, a, b):
    """structural if-then-else"""
    if z3.is_true(z3.simplify(c)) if z3.is_expr(c) else c is True: return a
    if isinstance(a, TableObj): return TableObj([z3.If(c, x, y) for x, y in zip(a.vals, b.vals)])
    if isinstance(a, BitsObj): return BitsObj([z3.If(c, x, y) for x, y in zip(a.bits, b.bits)])
    if isinstance(a, SetObj): return SetObj(a.K, [z3.If(c, x, y) for x, y in zip(a.present, b.present)], [z3.If(c, x, y) for x, y in zip(a.n, b.n)])
    if isinstance(a, ResultVal):
        pa, pb = a.payload, b.payload
        pay = pa if pa is pb else (z3.If(c, pa, pb) if z3.is_expr(pa) and z3.is_expr(pb) else pa)
        return ResultVal(z3.If(c, a.ok, b.ok), pay)
    if isinstance(a, OptionVal):
        sa = a.some if z3.is_expr(a.some) else z3.BoolVal(a.some); sb = b.some if z3.is_expr(b.some) else z3.BoolVal(b.some)
        pa = a.payload if a.payload is not None else bv(0); pb = b.payload if b.payload is not None else bv(0)
        return OptionVal(z3.If(c, sa, sb), ite(c, pa, pb))
    if isinstance(a, (Opaque, VecObj, SeqIter)): return a
    if isinstance(a, Ref) and isinstance(b, Ref): return a
    if a is None or b is None: return a if b is None else b
    if isinstance(a, Struct): return Struct(a.name, [ite(c, x, y) for x, y in zip(a.fields, b.fields)])
    if isinstance(a, list): return [ite(c, x, y) for x, y in zip(a, b)]
    if isinstance(a, MapObj): return MapObj(a.K, [z3.If(c, x, y) for x, y in zip(a.present, b.present)], [ite(c, x, y) for x, y in zip(a.vals, b.vals)])
    if z3.is_expr(a) or z3.is_expr(b): return z3.If(c, a, b)
    if a is b: return a
    raise Exception('ite on %r / %r' % (a, b))

# ---------------------------------------------------------------- interpreter
class Panic(Exception): pass
class MultiReturn:
    def __init__(self, alts): self.alts = alts


class Path:
    def __init__(self, pc, frames): self.pc, self.frames = pc, frames

class Interp:
    def __init__(self, fns, K=3, models=None):
        self.fns, self.K = fns, K
        self.results = []   # (pathcond, kind, value, state)
        self.models = models or {}
        self.fresh = itertools.count()

    def find(self, pat):
        c = [f for n, f in self.fns.items() if re.search(pat, n)]
        assert len(c) == 1, (pat, [f.name for f in c])
        return c[0]

    # ---- places
    def parse_place(self, s):
        s = s.strip()
        m = re.match(r'^(_\d+)$', s)
        if m: return (m.group(1), [])
        if s.startswith('(') and s.endswith(')'):
            inner = s[1:-1]
            if inner.startswith('*'):
                r, p = self.parse_place(inner[1:]); return (r, p + ['*'])
            m = re.match(r'^(.*) as (\w+)$', inner)
            if m and not re.search(r'\.\d+: ', inner[len(m.group(1)):]):
                r, p = self.parse_place(m.group(1)); return (r, p + [('as', m.group(2))])
            # field: (BASE.N: TY)
            depth = 0
            for i in range(len(inner)):
                c = inner[i]
                if c in '([{': depth += 1
                elif c in ')]}': depth -= 1
                elif c == ':' and depth == 0 and inner[i+1] == ' ':
                    base_field = inner[:i]
                    j = base_field.rfind('.')
                    r, p = self.parse_place(base_field[:j]); return (r, p + [int(base_field[j+1:])])
        if s.startswith('*'):
            r, p = self.parse_place(s[1:]); return (r, p + ['*'])
        raise Exception('place? ' + s)

    def load(self, fr, place):
        root, proj = place
        v = fr['locals'].get(root) if isinstance(root, str) else None
        if not isinstance(root, str): v = self.read_root(root)
        return self.project_read(v, proj)

    def project_read(self, v, proj):
        for k, p in enumerate(proj):
            if p == '*':
                assert isinstance(v, Ref), v
                return self.project_read(self.read_ref(v), proj[k+1:])
            elif isinstance(p, tuple):
                if hasattr(v, 'payload') and hasattr(v, 'some'): v = ('__downcast__', v)
            else:
                if isinstance(v, tuple) and len(v) == 2 and v[0] == '__downcast__': v = v[1].payload; continue
                if isinstance(v, Entry): continue  # (entry as Variant).0 -> the entry itself
                assert isinstance(v, (Struct, list)), (v, proj)
                v = v.fields[p] if isinstance(v, Struct) else v[p]
        return v

    def read_ref(self, r):
        root, proj = r.place
        if root[0] == 'local': base = root[1]['locals'][root[2]]
        elif root[0] == 'mapval':
            m = self.read_ref(root[1]); key = root[2]
            base = m.vals[self.K-1]
            for k in range(self.K-2, -1, -1): base = ite(key == k, m.vals[k], base)
        elif root[0] == 'val': base = root[1]
        else: raise Exception(root)
        return self.project_read(base, proj)

    def write_ref(self, r, val):
        root, proj = r.place
        if root[0] == 'local':
            fr = root[1]
            fr['locals'][root[2]] = self.updated(fr['locals'].get(root[2]), proj, val)
        elif root[0] == 'mapval':
            m = self.read_ref(root[1]); key = root[2]
            newvals = []
            for k in range(self.K):
                newvals.append(ite(key == k, self.updated(m.vals[k], proj, val), m.vals[k]))
            self.write_ref(root[1], MapObj(m.K, m.present, newvals))
        else: raise Exception(root)

    def updated(self, base, proj, val):
        if not proj: return val
        p = proj[0]
        if p == '*':
            assert isinstance(base, Ref)
            self.write_ref(Ref((base.place[0], base.place[1] + proj[1:])), val); return base
        if isinstance(p, tuple): return self.updated(base, proj[1:], val)
        if isinstance(base, Struct):
            f = list(base.fields); f[p] = self.updated(f[p], proj[1:], val); return Struct(base.name, f)
        if isinstance(base, list):
            f = list(base); f[p] = self.updated(f[p], proj[1:], val); return f
        raise Exception(('update', base, proj))

    def store(self, fr, place, val):
        root, proj = place
        fr['locals'][root] = self.updated(fr['locals'].get(root), proj, val)

    # ---- operands / rvalues
    def operand(self, fr, s):
        s = s.strip()
        if s.startswith('copy ') or s.startswith('move '):
            return self.load(fr, self.parse_place(s[5:]))
        if s.startswith('no_retag '): return self.operand(fr, s[9:])
        if s.startswith('const '):
            c = s[6:]
            if c == 'true': return z3.BoolVal(True)
            if c == 'false': return z3.BoolVal(False)
            m = re.match(r'^(-?\d+)_(u|i)(size|\d+)$', c)
            if m: return bv(int(m.group(1)), 64 if m.group(3) == 'size' else int(m.group(3)))
            m = re.match(r'^(-?[\d.]+)f64$', c)
            if m: return z3.FPVal(float(m.group(1)), z3.Float64())
            if c.startswith('"'): return Opaque('str', s=c)
            if c.startswith('ZeroSized'): return Opaque('zst', s=c)
        raise Exception('operand? ' + s)

    def rvalue(self, fr, s):
        s = s.strip()
        m = re.match(r'^(\w+)\((.*)\)$', s)
        if m and m.group(1) in ('AddWithOverflow', 'SubWithOverflow', 'MulWithOverflow', 'Add', 'Sub', 'Mul', 'Div', 'Rem', 'Eq', 'Ne', 'Lt', 'Le', 'Gt', 'Ge', 'BitAnd', 'BitOr', 'BitXor', 'Shl', 'Shr', 'ShlUnchecked', 'ShrUnchecked', 'Not', 'Neg'):
            args = [self.operand(fr, a) for a in split_top(m.group(2))]
            return self.binop(m.group(1), args)
        if s.startswith('&mut ') or s.startswith('&'):
            p = self.parse_place(s[5:] if s.startswith('&mut ') else s[1:])
            return self.make_ref(fr, p)
        m = re.match(r'^(?:std::option::)?Option::<.*?>::Some\((.*)\)$', s)
        if m:
            return OptionVal(z3.BoolVal(True), self.operand(fr, m.group(1)))
        if re.match(r'^(?:std::option::)?Option::<.*>::None$', s):
            return OptionVal(z3.BoolVal(False), bv(0))
        if s.startswith('discriminant('):
            v = self.load(fr, self.parse_place(s[13:-1]))
            if isinstance(v, OptionVal):
                return z3.If(v.some, bv(1), bv(0)) if z3.is_expr(v.some) else bv(1 if v.some else 0)
            if isinstance(v, ResultVal):
                return z3.If(v.ok, bv(0), bv(1))
            assert isinstance(v, Entry)
            m_ = self.read_ref(v.mapref)
            pres = self.map_present(m_, v.key)
            return z3.If(pres, bv(0), bv(1))   # Occupied = 0, Vacant = 1 (declaration order in std)
        m = re.match(r'^(.*) as (\w+) \((\w+)\)$', s)
        if m and m.group(3) == 'IntToInt' and m.group(2) in ('u8', 'u16', 'u32', 'u64', 'usize'):
            v = self.operand(fr, m.group(1))
            tw = {'u8': 8, 'u16': 16, 'u32': 32, 'u64': 64, 'usize': 64}[m.group(2)]
            if z3.is_bv(v):
                if v.size() == tw: return v
                return z3.ZeroExt(tw - v.size(), v) if v.size() < tw else z3.Extract(tw - 1, 0, v)
        if m:
            v = self.operand(fr, m.group(1)); ty, kind = m.group(2), m.group(3)
            if kind == 'IntToFloat': return z3.fpToFP(z3.RNE(), v, z3.Float64()) if False else z3.fpUnsignedToFP(z3.RNE(), v, z3.Float64())
            if kind == 'FloatToInt':
                # saturating cast
                maxf = z3.fpUnsignedToFP(z3.RNE(), bv(2**64 - 1), z3.Float64())
                return z3.If(z3.fpIsNaN(v), bv(0), z3.If(z3.fpLEQ(v, z3.FPVal(0.0, z3.Float64())), bv(0), z3.If(z3.fpGEQ(v, maxf), bv(2**64 - 1), z3.fpToUBV(z3.RTZ(), v, z3.BitVecSort(64)))))
            raise Exception('cast ' + s)
        m = re.match(r'^(\{closure@[^}]*\}|[\w:]+) \{(.*)\}$', s)
        if m:
            fields = [self.operand(fr, f.split(':', 1)[1]) for f in split_top(m.group(2))]
            return Struct(m.group(1), fields)
        if s.startswith('(') and s.endswith(')') and ',' in s and not re.match(r'^\(\*?_\d+[.)]', s):
            parts = split_top(s[1:-1])
            if len(parts) >= 2 and all(re.match(r'^(copy |move |const )', x.strip()) for x in parts if x.strip()):
                # tuple aggregate: (copy _2, move _7)
                return Struct('tuple', [self.operand(fr, x) for x in parts if x.strip()])
        return self.operand(fr, s)

    def make_ref(self, fr, p):
        root, proj = p
        # resolve derefs so the ref points at the ultimate object
        base = ('local', fr, root); cur = []
        v = fr['locals'].get(root)
        for k, q in enumerate(proj):
            if q == '*':
                assert isinstance(v, Ref), (v, p)
                base, cur = v.place[0], list(v.place[1]); v = self.read_ref(v)
            else:
                cur = cur + [q]
                if isinstance(q, int):
                    v = v.fields[q] if isinstance(v, Struct) else (v if isinstance(v, Entry) else v[q])
        return Ref((base, cur))

    def binop(self, op, a):
        x = a[0]; y = a[1] if len(a) > 1 else None
        if z3.is_fp(x):
            return {'Sub': lambda: z3.fpSub(z3.RNE(), x, y), 'Mul': lambda: z3.fpMul(z3.RNE(), x, y), 'Add': lambda: z3.fpAdd(z3.RNE(), x, y)}[op]()
        if op == 'AddWithOverflow': return [x + y, z3.Not(z3.BVAddNoOverflow(x, y, False))]
        if op == 'SubWithOverflow': return [x - y, z3.ULT(x, y)]
        if op == 'MulWithOverflow': return [x * y, z3.Not(z3.BVMulNoOverflow(x, y, False))]
        if op == 'Eq': return x == y
        if op == 'Ne': return x != y
        if op == 'Lt': return z3.ULT(x, y)
        if op == 'Le': return z3.ULE(x, y)
        if op == 'Gt': return z3.UGT(x, y)
        if op == 'Ge': return z3.UGE(x, y)
        if op == 'Add': return x + y
        if op == 'Sub': return x - y
        if op == 'Div': return z3.simplify(z3.UDiv(x, y)) if z3.is_bv_value(z3.simplify(y)) else UDIV(x, y)
        if op == 'Rem': return z3.simplify(z3.URem(x, y)) if z3.is_bv_value(z3.simplify(y)) else UREM(x, y)
        if op == 'Not': return z3.Not(x) if z3.is_bool(x) else ~x
        if op == 'BitOr': return z3.Or(x, y) if z3.is_bool(x) else x | y
        if op == 'BitAnd': return z3.And(x, y) if z3.is_bool(x) else x & y
        if op == 'BitXor': return z3.Xor(x, y) if z3.is_bool(x) else x ^ y
        if op == 'Mul': return x * y
        if op in ('Shl', 'Shr', 'ShlUnchecked', 'ShrUnchecked'):
            if y.size() != x.size(): y = z3.ZeroExt(x.size() - y.size(), y) if y.size() < x.size() else z3.Extract(x.size() - 1, 0, y)
            return x << y if op.startswith('Shl') else z3.LShR(x, y)
        if op == 'Neg': return -x
        raise Exception(op)

    def map_present(self, m, key):
        e = m.present[self.K-1]
        for k in range(self.K-2, -1, -1): e = z3.If(key == k, m.present[k], e)
        return e

    # ---- calls (container contracts)
    def call(self, fr, fname, args):
        a = [self.operand(fr, x) for x in args]
        if re.match(r'^HashMap::<.*>::entry$', fname): return Entry(a[0], a[1])
        if fname.endswith('OccupiedEntry::<\'_, T, KnownEntry>::get_mut'):
            e = self.read_ref(a[0]); return Ref((('mapval', e.mapref, e.key), []))
        if fname.endswith('VacantEntry::<\'_, T, KnownEntry>::insert'):
            e = a[0]; m = self.read_ref(e.mapref)
            pres = [z3.If(e.key == k, z3.BoolVal(True), m.present[k]) for k in range(self.K)]
            vals = [ite(e.key == k, a[1], m.vals[k]) for k in range(self.K)]
            self.write_ref(e.mapref, MapObj(self.K, pres, vals))
            return Ref((('mapval', e.mapref, e.key), []))
        if re.match(r'^HashMap::<.*>::drain$', fname):
            m = self.read_ref(a[0])
            self.write_ref(a[0], MapObj(self.K, [z3.BoolVal(False)] * self.K, m.vals))
            return Opaque('iter', items=m, owned=True)
        if re.match(r'^HashMap::<.*>::iter$', fname):
            return Opaque('iter', items=self.read_ref(a[0]), owned=False)
        if re.match(r'^HashMap::<.*>::new$', fname):
            return MapObj(self.K, [z3.BoolVal(False)] * self.K, [Struct('KnownEntry', [bv(0), bv(0)]) for _ in range(self.K)])
        if ' as Iterator>::filter::<' in fname:
            return Opaque('iter', items=a[0].items, owned=a[0].owned, pred=a[1], prev=a[0])
        if ' as Iterator>::collect::<HashMap<' in fname:
            it = a[0]; m = it.items
            clo = self.find(re.escape(fr['fn'].name) + r'::\{closure#0\}$')
            pres = []
            for k in range(self.K):
                item = [bv(k), m.vals[k]] if it.owned else [Ref((('val', bv(k)), [])), Ref((('val', m.vals[k]), []))]
                keep, pan = self.run_closure(clo, it.pred, item)
                bad = z3.simplify(z3.And(self.cur_pc, m.present[k], pan))
                if not z3.is_false(bad): self.results.append((bad, 'panic', 'in closure: overflow', None))
                self.cur_pc = z3.simplify(z3.And(self.cur_pc, z3.Not(z3.And(m.present[k], pan))))
                pres.append(z3.And(m.present[k], keep))
            return MapObj(self.K, pres, m.vals)
        if fname == 'f64::<impl f64>::ceil': return z3.fpRoundToIntegral(z3.RTP(), a[0])
        if fname == 'core::f64::<impl f64>::max': return z3.If(z3.fpIsNaN(a[0]), a[1], z3.If(z3.fpIsNaN(a[1]), a[0], z3.If(z3.fpGEQ(a[0], a[1]), a[0], a[1])))
        if ' as Iterator>::map::<' in fname or ' as Iterator>::cloned::<' in fname: return a[0]
        if fname.startswith('Arguments::') or fname.startswith('core::fmt::') or fname.startswith('std::fmt::'): return Opaque('fmt')
        g = self.generic_option_call(fname, a)
        if g is not None: return g[0]
        m_ = re.match(r'^(?:std|core)::mem::(replace|swap|take)::<.*>$', fname)
        if m_ and a and isinstance(a[0], Ref):
            old_v = copyval(self.read_ref(a[0]))
            if m_.group(1) == 'replace':
                self.write_ref(a[0], a[1]); return old_v
            if m_.group(1) == 'swap' and isinstance(a[1], Ref):
                other_v = copyval(self.read_ref(a[1]))
                self.write_ref(a[0], other_v); self.write_ref(a[1], old_v); return Opaque('unit')
            if m_.group(1) == 'take' and z3.is_bv(old_v):
                self.write_ref(a[0], z3.BitVecVal(0, old_v.size())); return old_v
        g = self.generic_range_call(fr, fname, a)
        if g is not None: return g[0]
        g = self.generic_map_call(fr, fname, a)
        if g is not None: return g[0]
        g = self.generic_int_call(fname, a)
        if g is not None: return g
        loc = self.find_local_fn(fname)
        if loc is not None:
            # a (private) function of the crate itself, e.g. a helper a refactoring extracted: interpret its MIR
            return self.call_local_merged(loc, a, fr)
        raise Exception('no model for call ' + fname)

    def generic_option_call(self, fname, a):
        """Option<integer/bool> helpers (OptionVal(some, payload))"""
        def val(x):
            x = self.read_ref(x) if isinstance(x, Ref) else x
            return x if isinstance(x, OptionVal) else None
        def some_of(o):
            return o.some if z3.is_expr(o.some) else z3.BoolVal(bool(o.some))
        m = re.match(r'^<(?:std::option::)?Option<.*> as PartialEq>::(eq|ne)$', fname)
        if m and len(a) == 2:
            x, y = val(a[0]), val(a[1])
            if x is None or y is None or not (z3.is_expr(x.payload) and z3.is_expr(y.payload)):
                return None
            eq = z3.And(some_of(x) == some_of(y), z3.Or(z3.Not(some_of(x)), x.payload == y.payload))
            return (eq if m.group(1) == 'eq' else z3.Not(eq),)
        # the `?` operator on Result: ControlFlow<Result<Infallible,E>, T> is represented by the Result itself (Continue = Ok has
        # discriminant 0, Break = Err has 1; `(x as Continue).0` / `(x as Break).0` read the payload)
        if re.match(r'^<(?:std::result::)?Result<.*> as (?:std::ops::)?Try>::branch$', fname) and a:
            r = self.read_ref(a[0]) if isinstance(a[0], Ref) else a[0]
            if isinstance(r, ResultVal):
                return (r,)
        if re.match(r'^<(?:std::result::)?Result<.*> as (?:std::ops::)?FromResidual<.*>>::from_residual$', fname) and a:
            r = self.read_ref(a[0]) if isinstance(a[0], Ref) else a[0]
            return (ResultVal(z3.BoolVal(False), r.payload if isinstance(r, ResultVal) else r),)
        m = re.match(r'^(?:std::option::)?Option::<.*>::(is_some|is_none|unwrap|expect|unwrap_or|unwrap_or_default)$', fname)
        if m and a:
            o = val(a[0])
            if o is None:
                return None
            op = m.group(1)
            if op == 'is_some': return (some_of(o),)
            if op == 'is_none': return (z3.Not(some_of(o)),)
            if op in ('unwrap', 'expect'):
                bad = z3.simplify(z3.And(self.cur_pc, z3.Not(some_of(o))))
                if not z3.is_false(bad):
                    self.results.append((bad, 'panic', 'unwrap on None', None))
                self.cur_pc = z3.simplify(z3.And(self.cur_pc, some_of(o)))
                return (o.payload,)
            if op == 'unwrap_or' and z3.is_expr(o.payload): return (z3.If(some_of(o), o.payload, a[1]),)
            if op == 'unwrap_or_default' and z3.is_bv(o.payload): return (z3.If(some_of(o), o.payload, z3.BitVecVal(0, o.payload.size())),)
        return None

    # ---- HashMap entry / retain idioms with closures (generic over the K-key map contract)
    def closure_by_span(self, fname):
        m = re.search(r'::<(\{closure@[^}]*\})>$', fname)
        if not m:
            return None
        c = [f for n, f in self.fns.items() if '{closure#' in n and m.group(1) in f.sig]
        return c[0] if len(c) == 1 else None

    def run_closure_cells(self, clo, cells, argorder):
        """Run a closure whose &mut arguments live in a scratch world `cells` (so that forked paths keep their own copies).
        argorder: [('ref', cellname) | ('val', value)]. -> (merged return value, merged cells, panic condition)"""
        sub = self.__class__(self.fns, self.K)
        for k_ in ('shared', 'cms_ret', 'merge_diamonds'):
            if hasattr(self, k_):
                setattr(sub, k_, getattr(self, k_))
        holder = {'locals': dict(cells)}
        sub.world = holder
        argv = [Ref((('local', holder, x[1]), [])) if x[0] == 'ref' else x[1] for x in argorder]
        res = sub.run(clo, argv, z3.BoolVal(True))
        pan = z3.BoolVal(False)
        ret, after = None, None
        for pc, kind, v, snap in res:
            if kind == 'panic':
                pan = z3.Or(pan, pc)
                continue
            snap = {k: snap[k] for k in cells}
            if after is None:
                ret, after = v, snap
            else:
                ret = ite(pc, v, ret) if ret is not None else None
                after = {k: ite(pc, snap[k], after[k]) for k in after}
        return ret, after, z3.simplify(pan)

    def generic_range_call(self, fr, fname, a):
        """Range<usize>::{find, position, any, all} with a closure: unrolled over the (bounded) range"""
        m = re.match(r'^<std::ops::Range<usize> as Iterator>::(find|position|any|all)::<\{closure@', fname)
        if not m:
            return None
        clo = self.closure_by_span(fname)
        if clo is None:
            return None
        op = m.group(1)
        rng = self.read_ref(a[0]) if isinstance(a[0], Ref) else a[0]
        st, en = rng.fields[0], rng.fields[1]
        width = z3.simplify(en - st)
        n = width.as_long() if z3.is_bv_value(width) else int(getattr(self, 'max_range_iter', 16))
        if n > 64:
            return None
        env = a[1]
        env_by_ref = not clo.sig.split('_1: ')[1].lstrip().startswith('{closure')
        found, hit_idx, hit_j = z3.BoolVal(False), bv(0), bv(0)
        for j in range(n):
            idx = st + j
            active = z3.And(z3.ULT(bv(j), en - st), z3.ULE(st, en), z3.Not(found))
            args = [('ref', 'env') if env_by_ref else ('val', env), ('ref', 'it') if op == 'find' else ('val', idx)]
            ret, _, pan = self.run_closure_cells(clo, {'env': env, 'it': idx}, args)
            bad = z3.simplify(z3.And(self.cur_pc, active, pan))
            if not z3.is_false(bad):
                self.results.append((bad, 'panic', 'in %s closure' % op, None))
            self.cur_pc = z3.simplify(z3.And(self.cur_pc, z3.Not(z3.And(active, pan))))
            hit = z3.And(active, z3.Not(ret) if op == 'all' else ret)
            hit_idx = z3.If(hit, idx, hit_idx)
            hit_j = z3.If(hit, bv(j), hit_j)
            found = z3.simplify(z3.Or(found, hit))
        if not z3.is_bv_value(width):
            # ranges longer than the unrolling bound are outside the model
            bad = z3.simplify(z3.And(self.cur_pc, z3.UGT(en - st, bv(n)), z3.ULE(st, en)))
            if not z3.is_false(bad):
                self.results.append((bad, 'panic', 'MODEL-LIMIT: range longer than %d' % n, None))
        if isinstance(a[0], Ref):
            self.write_ref(a[0], Struct(rng.name, [z3.If(found, hit_idx + 1, z3.If(z3.ULE(st, en), en, st)), en]))
        if op == 'find': return (OptionVal(found, hit_idx),)
        if op == 'position': return (OptionVal(found, hit_j),)
        if op == 'any': return (found,)
        return (z3.Not(found),)

    def generic_map_call(self, fr, fname, a):
        K = self.K
        m = re.search(r"Entry::<'_, [^>]*>::(and_modify|or_insert_with)::<\{closure@", fname)
        if m:
            clo = self.closure_by_span(fname)
            if clo is None:
                return None
            e = a[0]
            mp = self.read_ref(e.mapref)
            pres = self.map_present(mp, e.key)
            cur = mp.vals[K - 1]
            for k in range(K - 2, -1, -1):
                cur = ite(e.key == k, mp.vals[k], cur)
            env = a[1]
            if m.group(1) == 'and_modify':
                _, after, pan = self.run_closure_cells(clo, {'v': copyval(cur), 'env': env}, [('val', env) if clo.sig.split('_1: ')[1].lstrip().startswith('{closure') else ('ref', 'env'), ('ref', 'v')])
                bad = z3.simplify(z3.And(self.cur_pc, pres, pan))
                if not z3.is_false(bad): self.results.append((bad, 'panic', 'in and_modify closure: overflow', None))
                self.cur_pc = z3.simplify(z3.And(self.cur_pc, z3.Not(z3.And(pres, pan))))
                newv = after['v']
                self.write_ref(e.mapref, MapObj(K, mp.present, [ite(z3.And(pres, e.key == k), newv, mp.vals[k]) for k in range(K)]))
                return (e,)
            ret, _, pan = self.run_closure_cells(clo, {'env': env}, [('val', env) if clo.sig.split('_1: ')[1].lstrip().startswith('{closure') else ('ref', 'env')])
            vac = z3.Not(pres)
            bad = z3.simplify(z3.And(self.cur_pc, vac, pan))
            if not z3.is_false(bad): self.results.append((bad, 'panic', 'in or_insert_with closure: overflow', None))
            self.cur_pc = z3.simplify(z3.And(self.cur_pc, z3.Not(z3.And(vac, pan))))
            self.write_ref(e.mapref, MapObj(K, [z3.Or(mp.present[k], e.key == k) for k in range(K)], [ite(z3.And(vac, e.key == k), ret, mp.vals[k]) for k in range(K)]))
            return (Ref((('mapval', e.mapref, e.key), [])),)
        m = re.search(r"Entry::<'_, [^>]*>::or_insert$", fname)
        if m:
            e = a[0]
            mp = self.read_ref(e.mapref)
            vac = z3.Not(self.map_present(mp, e.key))
            self.write_ref(e.mapref, MapObj(K, [z3.Or(mp.present[k], e.key == k) for k in range(K)], [ite(z3.And(vac, e.key == k), a[1], mp.vals[k]) for k in range(K)]))
            return (Ref((('mapval', e.mapref, e.key), [])),)
        if re.match(r'^HashMap::<.*>::retain::<\{closure@', fname):
            clo = self.closure_by_span(fname)
            if clo is None:
                return None
            mp = self.read_ref(a[0])
            env = a[1]
            pres, vals = [], []
            for k in range(K):
                keep, after, pan = self.run_closure_cells(clo, {'env': env, 'k': bv(k), 'v': copyval(mp.vals[k])}, [('ref', 'env'), ('ref', 'k'), ('ref', 'v')])
                bad = z3.simplify(z3.And(self.cur_pc, mp.present[k], pan))
                if not z3.is_false(bad): self.results.append((bad, 'panic', 'in retain closure: overflow', None))
                self.cur_pc = z3.simplify(z3.And(self.cur_pc, z3.Not(z3.And(mp.present[k], pan))))
                pres.append(z3.And(mp.present[k], keep))
                vals.append(after['v'])
            self.write_ref(a[0], MapObj(K, pres, vals))
            return (Opaque('unit'),)
        return None

    # ---- crate-local callees (generic): interpret the callee's MIR, merge its return paths back into one state
    def find_local_fn(self, fname):
        m = re.match(r'^<?(\w+)(?:::<[^:]*>)?(?: as [^>]*>)?::(\w+)(?:::<.*>)?$', fname)
        if not m:
            m0 = re.match(r'^(\w+)(?:::<.*>)?$', fname)   # free function of the crate
            if not m0:
                return None
            ty, meth = '', m0.group(1)
        else:
            ty, meth = m.group(1), m.group(2)
        cands = [f for n, f in self.fns.items() if re.search(r'(?:^|>|::)' + re.escape(meth) + r'$', n) and '{closure' not in n]
        if len(cands) > 1:
            c2 = [f for f in cands if ty.lower() in f.name.lower()]
            cands = c2 or cands
        return cands[0] if len(cands) == 1 else None

    def up_frames(self):
        """frames above the current one, nearest first (the callee's `chain` is this list minus its direct caller)"""
        return ([self.caller] if getattr(self, 'caller', None) is not None else []) + list(getattr(self, 'up_chain', []))

    def restore_chain(self, snaps):
        for f, sv in zip(self.up_frames(), snaps):
            f['locals'].clear(); f['locals'].update({k: copyval(v) for k, v in sv.items()})

    def merge_chain(self, rets_snaps):
        """rets_snaps: [(pc, [locals per up-frame])], last entry is the default; writes the ite-merged locals back"""
        if not rets_snaps or not rets_snaps[-1][1]:
            return
        cur = [dict(x) for x in rets_snaps[-1][1]]
        for pc, snaps in reversed(rets_snaps[:-1]):
            for i, sv in enumerate(snaps):
                if i < len(cur):
                    cur[i] = {k: (ite(pc, sv[k], cur[i][k]) if k in sv and k in cur[i] else cur[i].get(k, sv.get(k))) for k in set(cur[i]) | set(sv)}
        for f, sv in zip(self.up_frames(), cur):
            f['locals'].clear(); f['locals'].update(sv)

    def sub_interp(self, fr):
        s_ = self.__class__(self.fns, self.K)
        for k in ('world', 'shared', 'cms_ret', 'merge_diamonds'):
            if hasattr(self, k):
                setattr(s_, k, getattr(self, k))
        s_.caller = fr
        s_.up_chain = self.up_frames()
        return s_

    def call_local_merged(self, fn, argvals, fr):
        sub = self.sub_interp(fr)
        res = sub.run(fn, argvals, self.cur_pc)
        rets = [(pc, v, snap) for pc, kind, v, snap in res if kind == 'ret']
        for pc, kind, v, snap in res:
            if kind == 'panic':
                self.results.append((pc, kind, v, snap))
        if not rets:
            raise Exception('no return path in %s' % fn.name)
        pc_all = z3.simplify(z3.Or([pc for pc, _, _ in rets]))
        val = rets[-1][1]
        world = dict(rets[-1][2]) if rets[-1][2] is not None else None
        cal = world.pop('__caller__') if world is not None and '__caller__' in world else None
        if world is not None:
            self.merge_chain([(pc, (snap or {}).get('__chain__', [])) for pc, v, snap in rets])
            world.pop('__chain__', None)
        for pc, v, snap in reversed(rets[:-1]):
            val = ite(pc, v, val) if val is not None else None
            if world is not None:
                snap = dict(snap)
                snap.pop('__chain__', None)
                c2 = snap.pop('__caller__', None)
                world = {k: ite(pc, snap[k], world[k]) for k in world}
                if cal is not None and c2 is not None:
                    cal = {k: (ite(pc, c2[k], cal[k]) if k in c2 and k in cal else cal.get(k, c2.get(k))) for k in set(cal) | set(c2)}
        if world is not None:
            self.world['locals'].clear()
            self.world['locals'].update(world)
        if cal is not None:
            fr['locals'].clear()
            fr['locals'].update(cal)
        self.cur_pc = pc_all
        return val

    def generic_int_call(self, fname, a):
        """std integer helpers that refactorings commonly introduce (so that a changed tree is decided, not inconclusive)"""
        a = [self.read_ref(x) if isinstance(x, Ref) and not z3.is_expr(x) else x for x in a]
        m = re.match(r'^(?:std|core)::cmp::(min|max)::<[ui](?:\d+|size)>$', fname)
        if m and len(a) == 2 and z3.is_bv(a[0]):
            lt = z3.ULT(a[0], a[1]) if not re.search(r'<i', fname) else (a[0] < a[1])
            return z3.If(lt, a[0], a[1]) if m.group(1) == 'min' else z3.If(lt, a[1], a[0])
        m = re.match(r'^<([ui])(?:\d+|size) as Ord>::(min|max)$', fname)
        if m and len(a) == 2 and z3.is_bv(a[0]) and z3.is_bv(a[1]):
            lt = (a[0] < a[1]) if m.group(1) == 'i' else z3.ULT(a[0], a[1])
            # Ord::max returns the second argument when equal, Ord::min the first: indistinguishable for integers
            return z3.If(lt, a[0], a[1]) if m.group(2) == 'min' else z3.If(lt, a[1], a[0])
        m = re.match(r'^<([ui])(?:\d+|size) as Ord>::clamp$', fname)
        if m and len(a) == 3 and all(z3.is_bv(x) for x in a):
            lt = (lambda p, q: p < q) if m.group(1) == 'i' else z3.ULT
            return z3.If(lt(a[0], a[1]), a[1], z3.If(lt(a[2], a[0]), a[2], a[0]))
        # lossless integer conversions: <usize as From<u16>>::from, <u16 as Into<usize>>::into (zero / sign extension)
        m = re.match(r'^<([ui])(\d+|size) as From<([ui])(\d+|size)>>::from$', fname)
        if not m:
            m2 = re.match(r'^<([ui])(\d+|size) as Into<([ui])(\d+|size)>>::into$', fname)
            if m2: m = re.match(r'(.)\|(.*)\|(.)\|(.*)', '%s|%s|%s|%s' % (m2.group(3), m2.group(4), m2.group(1), m2.group(2)))
        if m and len(a) == 1 and z3.is_bv(a[0]):
            wd = 64 if m.group(2) == 'size' else int(m.group(2))
            ws = a[0].size()
            if wd == ws: return a[0]
            if wd > ws: return z3.SignExt(wd - ws, a[0]) if m.group(3) == 'i' else z3.ZeroExt(wd - ws, a[0])
        m = re.match(r'^core::num::<impl ([ui])(\d+|size)>::(\w+)$', fname)
        if not m or not a or not z3.is_bv(a[0]):
            return None
        signed, op = m.group(1) == 'i', m.group(3)
        x = a[0]; y = a[1] if len(a) > 1 else None
        w = x.size()
        if y is not None and z3.is_bv(y) and y.size() != w:
            y = z3.ZeroExt(w - y.size(), y) if y.size() < w else z3.Extract(w - 1, 0, y)
        if op == 'wrapping_add': return x + y
        if op == 'wrapping_sub': return x - y
        if op == 'wrapping_mul': return x * y
        if op == 'saturating_sub' and not signed: return z3.If(z3.ULT(x, y), z3.BitVecVal(0, w), x - y)
        if op == 'saturating_add' and not signed: return z3.If(z3.BVAddNoOverflow(x, y, False), x + y, z3.BitVecVal(2 ** w - 1, w))
        if op in ('min', 'max') and not signed:
            lt = z3.ULT(x, y)
            return z3.If(lt, x, y) if op == 'min' else z3.If(lt, y, x)
        if op == 'leading_zeros':
            r = z3.BitVecVal(w, 32)
            for i in range(w): r = z3.If(z3.Extract(i, i, x) == 1, z3.BitVecVal(w - 1 - i, 32), r)
            return r
        if op == 'trailing_zeros':
            r = z3.BitVecVal(w, 32)
            for i in range(w - 1, -1, -1): r = z3.If(z3.Extract(i, i, x) == 1, z3.BitVecVal(i, 32), r)
            return r
        if op == 'count_ones':
            return z3.Sum([z3.ZeroExt(31, z3.Extract(i, i, x)) for i in range(w)])
        if op == 'is_power_of_two': return z3.And(x != 0, (x & (x - 1)) == 0)
        if op in ('ilog2', 'checked_ilog2') and not signed:
            r = z3.BitVecVal(0, 32)
            for i in range(w): r = z3.If(z3.Extract(i, i, x) == 1, z3.BitVecVal(i, 32), r)
            if op == 'checked_ilog2': return OptionVal(x != 0, r)
            bad = z3.simplify(z3.And(self.cur_pc, x == 0))
            if not z3.is_false(bad): self.results.append((bad, 'panic', 'ilog2 of zero', None))
            self.cur_pc = z3.simplify(z3.And(self.cur_pc, x != 0))
            return r
        if op == 'next_power_of_two' and not signed:
            r = z3.BitVecVal(1, w)
            for i in range(w - 1): r = z3.If(z3.UGT(x, z3.BitVecVal(1 << i, w)), z3.BitVecVal(1 << (i + 1), w), r)
            return r
        if op == 'abs_diff' and not signed: return z3.If(z3.ULT(x, y), y - x, x - y)
        if op in ('checked_add', 'checked_sub', 'checked_mul') and not signed:
            ok = {'checked_add': z3.BVAddNoOverflow(x, y, False), 'checked_sub': z3.UGE(x, y), 'checked_mul': z3.BVMulNoOverflow(x, y, False)}[op]
            val = {'checked_add': x + y, 'checked_sub': x - y, 'checked_mul': x * y}[op]
            return OptionVal(ok, val)
        return None

    def run_closure(self, clo, env, item):
        sub = Interp(self.fns, self.K)
        holder = {'locals': {'env': env, 'item': item}}
        res = sub.run(clo, [Ref((('local', holder, 'env'), [])), Ref((('local', holder, 'item'), []))], z3.BoolVal(True))
        out = None; pan = z3.BoolVal(False)
        for pc, kind, val, _ in res:
            if kind == 'panic': pan = z3.Or(pan, pc); continue
            out = val if out is None else z3.If(pc, val, out)
        return out, z3.simplify(pan)

    # ---- execution
    def run(self, fn, argvals, pc0):
        fr = {'fn': fn, 'locals': {}}
        for n, v in zip(fn.args, argvals): fr['locals'][n] = v
        self.results = []
        self.exec_block(fr, 'bb0', pc0)
        return self.results

    def snapshot(self, fr):
        return {'fn': fr['fn'], 'locals': {k: copyval(v) for k, v in fr['locals'].items()}}

    def exec_block(self, fr, bbname, pc):
        while True:
            stmts = fr['fn'].blocks[bbname]
            for st in stmts[:-1]:
                self.exec_stmt(fr, st)
            t = stmts[-1]
            if t == 'return;':
                snap = {k: copyval(v) for k, v in self.world['locals'].items()} if getattr(self, 'world', None) else None
                if getattr(self, 'caller', None) is not None and snap is not None:
                    snap['__caller__'] = {k: copyval(v) for k, v in self.caller['locals'].items()}
                    # frames further up the call chain: a `&mut` handed down two levels is written through here
                    snap['__chain__'] = [{k: copyval(v) for k, v in f['locals'].items()} for f in getattr(self, 'up_chain', [])]
                self.results.append((pc, 'ret', fr['locals'].get('_0'), snap)); return
            if t in ('unreachable;', 'resume;'):
                return
            m = re.match(r'^goto -> (bb\d+);$', t)
            if m: bbname = m.group(1); continue
            m = re.match(r'^switchInt\((.*)\) -> \[(.*)\];$', t)
            if m:
                v = self.operand(fr, m.group(1)); targets = split_top(m.group(2))
                conds = []; other = None
                for tg in targets:
                    val, bb = [x.strip() for x in tg.split(':')]
                    if val == 'otherwise': other = bb
                    else:
                        c = (v == bv(int(val), v.size())) if z3.is_bv(v) else (v if int(val) == 1 else z3.Not(v))
                        conds.append((c, bb))
                if other: conds.append((z3.And([z3.Not(c) for c, _ in conds]), other))
                if len(conds) == 2 and getattr(self, 'merge_diamonds', False):
                    j = self.find_join(fr['fn'], conds[0][1], conds[1][1])
                    if j is not None:
                        states = []
                        for c, bb in conds:
                            saved = {k: copyval(v) for k, v in fr['locals'].items()}
                            wsaved = {k: copyval(v) for k, v in self.world['locals'].items()}
                            self.run_linear(fr, bb, j, z3.simplify(z3.And(pc, c)))
                            states.append(({k: copyval(v) for k, v in fr['locals'].items()}, {k: copyval(v) for k, v in self.world['locals'].items()}))
                            fr['locals'].clear(); fr['locals'].update(saved)
                            self.world['locals'].clear(); self.world['locals'].update(wsaved)
                        c0 = conds[0][0]
                        (l0, w0), (l1, w1) = states
                        fr['locals'].clear()
                        for k in set(l0) | set(l1):
                            if k in l0 and k in l1: fr['locals'][k] = ite(c0, l0[k], l1[k])
                            else: fr['locals'][k] = l0.get(k, l1.get(k))
                        self.world['locals'].clear(); self.world['locals'].update({k: ite(c0, w0[k], w1[k]) for k in w0})
                        bbname = j; continue
                for c, bb in conds:
                    npc = z3.simplify(z3.And(pc, c))
                    if z3.is_false(npc): continue
                    s = z3.Solver(); s.add(npc)
                    if s.check() == z3.unsat: continue
                    self.fork(fr, bb, npc)
                return
            m = re.match(r'^assert\((.*?), "(.*?)"(.*)\) -> \[success: (bb\d+), unwind.*\];$', t)
            if m:
                cond = m.group(1); neg = cond.startswith('!')
                v = self.operand(fr, cond[1:] if neg else cond)
                ok = z3.Not(v) if neg else v
                bad = z3.simplify(z3.And(pc, z3.Not(ok)))
                if not z3.is_false(bad): self.results.append((bad, 'panic', m.group(2), None))
                pc = z3.simplify(z3.And(pc, ok)); bbname = m.group(4); continue
            m = re.match(r'^drop\((.*)\) -> \[return: (bb\d+).*\];$', t)
            if m: bbname = m.group(2); continue
            m = re.match(r'^(.*?) = (.*)\((.*)\) -> \[return: (bb\d+).*\];$', t)
            if m:
                self.cur_pc = pc
                val = self.call(fr, m.group(2), split_top(m.group(3)))
                pc = self.cur_pc
                if isinstance(val, MultiReturn):
                    for apc, aval, asnap in val.alts:
                        callerloc = asnap.pop('__caller__')
                        self.restore_chain(asnap.pop('__chain__', []))
                        self.world['locals'].clear(); self.world['locals'].update({k: copyval(v) for k, v in asnap.items()})
                        fr['locals'].clear(); fr['locals'].update({k: copyval(v) for k, v in callerloc.items()})
                        self.store(fr, self.parse_place(m.group(1)), aval)
                        self.fork(fr, m.group(4), apc)
                    return
                self.store(fr, self.parse_place(m.group(1)), val)
                bbname = m.group(4); continue
            raise Exception('terminator? ' + t)

    def chain(self, fn, bb, limit=6):
        out = []
        while len(out) < limit:
            out.append(bb)
            t = fn.blocks[bb][-1]
            m = re.match(r'^goto -> (bb\d+);$', t)
            if m: bb = m.group(1); continue
            m = re.match(r'^(.*?) = (.*)\((.*)\) -> \[return: (bb\d+).*\];$', t)
            if m and self.is_model_call(m.group(2)): bb = m.group(4); continue
            break
        return out
    def is_model_call(self, fname): return False
    def find_join(self, fn, a, b):
        ca, cb = self.chain(fn, a), self.chain(fn, b)
        for i, x in enumerate(ca):
            if x in cb:
                # chains up to the join must be straight-line (all but last element have goto/model-call terminators)
                return x
        return None
    def run_linear(self, fr, bb, join, pc):
        while bb != join:
            stmts = fr['fn'].blocks[bb]
            for st in stmts[:-1]: self.exec_stmt(fr, st)
            t = stmts[-1]
            m = re.match(r'^goto -> (bb\d+);$', t)
            if m: bb = m.group(1); continue
            m = re.match(r'^(.*?) = (.*)\((.*)\) -> \[return: (bb\d+).*\];$', t)
            self.cur_pc = pc
            val = self.call(fr, m.group(2), split_top(m.group(3)))
            self.store(fr, self.parse_place(m.group(1)), val)
            bb = m.group(4)
    def fork(self, fr, bb, pc):
        # deep-copy frame state (refs to this frame are re-targeted lazily: refs keep frame identity, so copy in place)
        saved = {k: copyval(v) for k, v in fr['locals'].items()}
        w = getattr(self, 'world', None)
        wsaved = {k: copyval(v) for k, v in w['locals'].items()} if w else None
        cal = getattr(self, 'caller', None)
        csaved = {k: copyval(v) for k, v in cal['locals'].items()} if cal else None
        chain = list(getattr(self, 'up_chain', []))
        chsaved = [{k: copyval(v) for k, v in f['locals'].items()} for f in chain]
        self.exec_block(fr, bb, pc)
        fr['locals'].clear(); fr['locals'].update(saved)
        if w: w['locals'].clear(); w['locals'].update(wsaved)
        if cal: cal['locals'].clear(); cal['locals'].update(csaved)
        for f, sv in zip(chain, chsaved):
            f['locals'].clear(); f['locals'].update(sv)

    def exec_stmt(self, fr, st):
        assert st.endswith(';'), st
        lhs, rhs = st[:-1].split(' = ', 1)
        self.store(fr, self.parse_place(lhs), self.rvalue(fr, rhs))


import os as _os, subprocess as _sp, tempfile as _tf

SOLVER_STATS = {'z3': 0, 'cvc5_fallback': 0, 'xcheck': 0, 'xcheck_disagree': 0, 'z3_s': 0.0, 'cvc5_s': 0.0}
Z3_FIRST_MS = int(_os.environ.get('VERIF_Z3_FIRST_MS', '20000'))
XCHECK_EVERY = int(_os.environ.get('VERIF_XCHECK_EVERY', '0'))      # 0 = off; n = every n-th query is also given to cvc5


def _cvc5(smt2, timeout_s, extra=()):
    with _tf.NamedTemporaryFile('w', suffix='.smt2', delete=False) as f:
        f.write(smt2)
        path = f.name
    try:
        p = _sp.run(['cvc5', '--lang', 'smt2', '--produce-models', '--tlimit', str(int(timeout_s * 1000))] + list(extra) + [path],
                    capture_output=True, text=True, timeout=timeout_s + 20)
        out = p.stdout
    except _sp.TimeoutExpired:
        out = 'unknown'
    finally:
        _os.unlink(path)
    first = out.strip().splitlines()[0] if out.strip() else 'unknown'
    if first not in ('sat', 'unsat', 'unknown') or ('(error' in out and first != 'unsat'):
        # an (error line before/with the verdict is inconclusive; the one (get-model) prints after `unsat` is expected
        return 'error', out
    return first, out


def _model_from_cvc5(out, assertions):
    """Rebuild a z3 model from cvc5's (get-model) output by asserting var = value."""
    s = z3.Solver()
    for a in assertions:
        s.add(a)
    for m in re.finditer(r'\(define-fun (\S+) \(\) \(_ BitVec (\d+)\) #([xb])([0-9a-fA-F]+)\)', out):
        name, w, base, val = m.group(1), int(m.group(2)), m.group(3), m.group(4)
        v = int(val, 16 if base == 'x' else 2)
        s.add(z3.BitVec(name.strip('|'), w) == z3.BitVecVal(v, w))
    for m in re.finditer(r'\(define-fun (\S+) \(\) Bool (true|false)\)', out):
        s.add(z3.Bool(m.group(1).strip('|')) == (m.group(2) == 'true'))
    s.set('timeout', 60000)
    return s.model() if s.check() == z3.sat else None


def solve(assertions, timeout_ms=600000, z3_first_ms=None):
    """One non-incremental query with a fresh solver (keeps z3 on its bit-blasting tactic path; push/pop would switch
    it to the much slower incremental core). z3 first with a short limit, then cvc5 (plain, then --solve-bv-as-int=sum)
    on the same SMT-LIB2 text. Any `(error` line or a disagreement between solvers is 'unknown'. -> (result, model|None)"""
    import time as _t
    s = z3.Solver()
    first = min(timeout_ms, Z3_FIRST_MS if z3_first_ms is None else z3_first_ms)
    s.set('timeout', first)
    for a in assertions:
        s.add(a)
    t0 = _t.time()
    r = s.check()
    SOLVER_STATS['z3'] += 1
    SOLVER_STATS['z3_s'] += _t.time() - t0
    n = SOLVER_STATS['z3']
    if r != z3.unknown and not (XCHECK_EVERY and n % XCHECK_EVERY == 0):
        return r, (s.model() if r == z3.sat else None)
    smt2 = '(set-logic ALL)\n' + s.to_smt2().replace('(check-sat)', '(check-sat)\n(get-model)')
    t0 = _t.time()
    budget = max(30, (timeout_ms - first) / 1000.0)
    # integer encoding that keeps the mod-2^k semantics first: decides multiply/shift/divide-by-constant kernels in a
    # second that bit-blasting does not finish; then plain bit-vector mode
    c, out = _cvc5(smt2, min(budget, 60), ['--solve-bv-as-int=sum'])
    if c not in ('sat', 'unsat'):
        c, out = _cvc5(smt2, min(budget, 300))
    SOLVER_STATS['cvc5_s'] += _t.time() - t0
    if r != z3.unknown:
        SOLVER_STATS['xcheck'] += 1
        if c in ('sat', 'unsat') and c != str(r):
            SOLVER_STATS['xcheck_disagree'] += 1
            return z3.unknown, None
        return r, (s.model() if r == z3.sat else None)
    SOLVER_STATS['cvc5_fallback'] += 1
    if c == 'unsat':
        return z3.unsat, None
    if c == 'sat':
        mdl = _model_from_cvc5(out, assertions)
        return (z3.sat, mdl) if mdl is not None else (z3.unknown, None)
    # last resort: z3 with the full budget
    s2 = z3.Solver()
    s2.set('timeout', max(1000, timeout_ms - first))
    for a in assertions:
        s2.add(a)
    r2 = s2.check()
    return r2, (s2.model() if r2 == z3.sat else None)
