"""Engine M glue: dump MIR of /repo's current tree, run SMT units in parallel processes, replay counterexamples natively."""
import json, os, random, shutil, subprocess, time
from concurrent.futures import ThreadPoolExecutor
from .common import *
from . import kani as K

MIRDIR = os.path.join(CACHE, "mir" + CACHE_TAG)


def dump_mir(tag="dev"):
    os.makedirs(MIRDIR, exist_ok=True)
    td = os.path.join(MIRDIR, "target")
    for d in (os.path.join(td, "debug", ".fingerprint"),):
        if os.path.isdir(d):
            for x in os.listdir(d):
                if x.startswith("pdatastructs-"):
                    shutil.rmtree(os.path.join(d, x), ignore_errors=True)
    out = os.path.join(MIRDIR, "mir_%s_%d.txt" % (tag, os.getpid()))
    env = dict(ENV)
    env["CARGO_TARGET_DIR"] = td
    t0 = time.time()
    with open(out, "w") as f:
        p = subprocess.run(["cargo", "+nightly", "rustc", "--offline", "--lib", "--", "-Zunpretty=mir", "-C", "overflow-checks=on"],
                           cwd=REPO, env=env, stdout=f, stderr=subprocess.PIPE, text=True)
    if p.returncode != 0 or os.path.getsize(out) < 1000:
        raise RuntimeError("MIR dump failed: " + p.stderr[-2000:])
    return out, time.time() - t0


def run_unit(mir_path, unit):
    tmo = unit.get("timeout_s", 1800)
    cmd = ["python3-vt", "-m", "mir2smt.run", mir_path, json.dumps({k: v for k, v in unit.items() if k not in ("what",)})]
    rc, out, secs = sh(cmd, cwd=VERIF, timeout=tmo, mem_gb=unit.get("mem_gb", 16))
    if "@@RESULT@@" in out:
        r = json.loads(out.split("@@RESULT@@")[-1].strip())
    elif rc == -9:
        r = {"error": "timeout after %ds" % tmo}
    else:
        r = {"error": "no result (rc=%s): %s" % (rc, out[-1500:])}
    r["proc_wall_s"] = round(secs, 1)
    return r


# ----------------------------------------------------------------- cuckoo native replay
def ck_count(slots, hashm, g, gi, bs, nb):
    gj = gi ^ (hashm.get(g, 0) % nb)
    c = 0
    for b in range(nb):
        if b in (gi, gj):
            for s in range(bs):
                if slots[b * bs + s] == g:
                    c += 1
    return c


def ck_replay_text(cex):
    L = ["# engine: M", "# tag: %s" % cex.get("tag"), "exec cuckoo", "bs %d" % cex["bs"], "nb %d" % cex["nb"], "kicks %d" % cex["kicks"],
         "slots " + ",".join(map(str, cex["slots"])), "n %d" % cex["n"], "op " + cex["op"], "f %d" % cex["f"], "i1 %d" % cex["i1"],
         "g %d" % cex["g"], "gi %d" % cex["gi"],
         "hash " + ",".join("%s:%s" % (k, v) for k, v in cex["hash"].items()),
         "draws " + ",".join(("b%d" % int(d[1])) if d[0] == "bool" else ("r%d/%d" % (d[1], d[2])) for d in cex["draws"])]
    if cex["op"] == "union":
        L += ["slots_b " + ",".join(map(str, cex["slots_b"])), "n_b %d" % cex["n_b"]]
    return "\n".join(L) + "\n"


def ck_eval_native(cex, nat):
    """Re-evaluate the property's clauses on the native post-state. Returns list of failing tags."""
    bs, nb = cex["bs"], cex["nb"]
    h = {int(k): int(v) for k, v in cex["hash"].items()}
    pre, post = cex["slots"], nat["slots"]
    g, gi, f, i1 = cex["g"], cex["gi"], cex["f"], cex["i1"]
    i2 = i1 ^ (h.get(f, 0) % nb)
    same = (g == f) and gi in (i1, i2)
    c_pre, c_post = ck_count(pre, h, g, gi, bs, nb), ck_count(post, h, g, gi, bs, nb)
    cx_pre = ck_count(pre, h, f, i1, bs, nb)
    bad = []
    nzp = sum(1 for v in post if v != 0)
    if nat["n"] != nzp:
        bad.append("invariant_n_is_nonzero_slots")
    op, res = cex["op"], nat["result"]
    if op == "insert":
        if res.startswith("ok"):
            if nat["n"] != cex["n"] + 1: bad.append("insert_ok_len_plus_one")
            if c_post != c_pre + (1 if same else 0): bad.append("insert_ok_class_counts")
            if res != "ok_true": bad.append("insert_ok_reports_true")
            if ck_count(post, h, f, i1, bs, nb) < 1: bad.append("insert_ok_query_true")
        else:
            if nat["n"] != cex["n"]: bad.append("insert_err_len_unchanged")
            if c_post != c_pre: bad.append("insert_err_class_counts_unchanged")
            if cex["n"] < bs: bad.append("insert_err_only_when_room_exhausted")
    elif op == "delete":
        had = cx_pre >= 1
        if (res == "true") != had: bad.append("delete_true_iff_copy_stored")
        if nat["n"] != cex["n"] - (1 if had else 0): bad.append("delete_len")
        if c_post != c_pre - (1 if (had and same) else 0): bad.append("delete_class_counts")
    elif op == "query":
        if cx_pre >= 1 and res != "true": bad.append("query_true_if_copy_stored")
        if cx_pre < 1 and res == "true": bad.append("query_false_if_no_copy")
        if post != pre or nat["n"] != cex["n"]: bad.append("query_is_pure")
    elif op == "union":
        cb = ck_count(cex["slots_b"], h, g, gi, bs, nb)
        if res == "ok":
            if nat["n"] != cex["n"] + cex["n_b"]: bad.append("union_ok_len_adds")
            if c_post != c_pre + cb: bad.append("union_ok_class_counts_add")
        else:
            if nat["n"] != cex["n"]: bad.append("union_err_len_unchanged")
            if c_post != c_pre: bad.append("union_err_class_counts_unchanged")
        if nat.get("slots_b") != cex["slots_b"] or nat.get("n_b") != cex["n_b"]: bad.append("union_other_unchanged")
    return bad


def native_exec(text, path, features=()):
    with open(path, "w") as f:
        f.write(text)
    exe = K.build_replay(tuple(features), release=False)
    rc, out, _ = sh([exe, path], timeout=120)
    for line in out.splitlines():
        if line.strip().startswith("{"):
            try:
                return json.loads(line)
            except Exception:
                pass
    return {"error": "native exec failed rc=%s: %s" % (rc, out[-800:])}


def replay_cex(pid, unit, cex):
    """-> (reproduced_tags, path, native)"""
    os.makedirs(REPLAYS, exist_ok=True)
    path = os.path.join(REPLAYS, "%s-M-%s.txt" % (pid, unit["name"]))
    model = unit["model"]
    if model == "cuckoo":
        # a path that ends in Err after `kicks` evictions is only a real history in the build with that bound
        overfull = (cex["op"] == "union" and cex["n"] + cex["n_b"] > cex["bs"] * cex["nb"]) or (cex["op"] == "insert" and cex["n"] == cex["bs"] * cex["nb"])
        feats = ("kicks2",) if (cex["kicks"] == 2 and not overfull) else ()
        nat = native_exec(ck_replay_text(cex), path, feats)
        if nat.get("error"):
            return [], path, nat
        return ck_eval_native(cex, nat), path, nat
    from . import mreplay
    return mreplay.replay(pid, unit, cex, path)


def replay_file(path):
    """./check <ID> --replay <file> for engine-M replay files."""
    txt = open(path).read()
    feats = ("kicks2",) if "\nkicks 2\n" in txt else ()
    K.prepare()
    exe = K.build_replay(feats, release=False)
    rc, out, _ = sh([exe, path], timeout=120)
    print(out.strip())
    return 0


def run_m_units(pid, tier, units, seed, ev, outcome):
    known = load_known()
    K.prepare()
    mir_path, mir_s = dump_mir()
    ev["m_runs"].append({"mir_dump_s": round(mir_s, 1), "mir_lines": sum(1 for _ in open(mir_path)), "cmd": "cargo +nightly rustc --lib -- -Zunpretty=mir -C overflow-checks=on (dev profile, /repo working tree)"})
    workers = max(1, min(len(units), NCPU // 2))
    log("[M] %s: %d units, %d workers" % (pid, len(units), workers))
    try:
        with ThreadPoolExecutor(max_workers=workers) as ex:
            results = list(ex.map(lambda u: run_unit(mir_path, dict(u, seed=seed)), units))
    finally:
        try:
            os.remove(mir_path)
        except OSError:
            pass
    for u, r in zip(units, results):
        if u.get("op") == "validate" and not r.get("error"):
            # translator validation: every concrete case must give the same result natively and through the encoding
            mism, agree = [], 0
            for i, c in enumerate(r.get("cases", [])):
                cs, e = c["case"], c["encoding"]
                vpath = os.path.join(CACHE, "val_%s_%d.txt" % (pid, i))
                if u["model"] == "cuckoo":
                    nat = native_exec(ck_replay_text(cs), vpath, ("kicks2",))
                    same = (not e.get("error")) and (not nat.get("error")) and (e["result"] == nat["result"]) and (e["slots"] == nat["slots"]) and (e["n"] == nat["n"])
                elif u["model"] == "lossy":
                    nat = native_exec("\n".join(["exec lossy", "width %d" % cs["width"], "n %d" % cs["n"], "op add", "y %d" % cs["y"],
                                                 "known " + ",".join("%d:%d:%d" % tuple(x) for x in cs["known"])]) + "\n", vpath)
                    same = (not e.get("error")) and (not nat.get("error")) and (e["result"] == nat["result"]) and (e.get("n") == nat.get("n")) and (e.get("known") == nat.get("known"))
                elif u["model"] == "qf":
                    nat = native_exec("\n".join(["exec qf", "bq %d" % cs["bq"], "br %d" % cs["br"], "members " + ",".join("%d:%d" % tuple(x) for x in cs["members"]),
                                                 "op insert", "y %d:%d" % tuple(cs["y"])]) + "\n", vpath)
                    def norm(sl):
                        return [[bool(a), bool(b), bool(c), (d if (a or b or c) else 0)] for a, b, c, d in sl]
                    same = (not e.get("error")) and (not nat.get("error")) and (e["result"] == nat["result"]) and (e.get("len") == nat.get("len")) and (norm(e.get("slots", [])) == norm(nat.get("slots", [])))
                else:
                    nat = native_exec("\n".join(["exec heap", "k %d" % cs["k"], "c %d" % cs["c"], "op add", "y %d" % cs["y"],
                                                 "map " + ",".join("%d:%d" % tuple(x) for x in cs["map"]), "tree " + ",".join("%d:%d" % tuple(x) for x in cs["tree"])]) + "\n", vpath)
                    same = (not e.get("error")) and (not nat.get("error")) and (e["result"] == nat["result"]) and (e.get("map") == nat.get("map")) and (e.get("tree") == sorted(nat.get("tree", [])))
                if same:
                    agree += 1
                else:
                    mism.append({"case": cs, "encoding": e, "native": nat})
            r["witnesses"] = {"cases_agree": agree}
            r["translator_validation"] = {"cases": len(r.get("cases", [])), "agree": agree, "mismatches": mism[:3]}
            if mism:
                r["error"] = "translator validation: %d of %d concrete cases differ between the real code and the encoding: %s" % (len(mism), len(r["cases"]), json.dumps(mism[0])[:600])
            r.pop("cases", None)
        rec = {"engine": "M", "unit": u["name"], "what": u.get("what", ""), "bounds": u.get("bounds", ""), "checks": r.get("queries", 0),
               "paths": r.get("paths"), "witnesses": r.get("witnesses", {}), "solver_time_s": r.get("wall_s", r.get("unit_wall_s")),
               "failed_tags": r.get("failed", []), "notes": [], "translator_validation": r.get("translator_validation"), "solver_stats": r.get("solver_stats")}
        failed = [t for t in r.get("failed", [])]
        rec["discharged"] = max(0, rec["checks"] - len(failed))
        ev["units"].append(rec)
        if r.get("error"):
            rec["status"] = "inconclusive"
            rec["notes"].append(r["error"])
            outcome["inconclusive"].append("%s: %s" % (u["name"], r["error"][:300]))
            continue
        unknown = [t for t in failed if t.startswith("UNKNOWN:") or t.startswith("MODEL")]
        if unknown:
            rec["status"] = "inconclusive"
            outcome["inconclusive"].append("%s: solver unknown / model limit: %s" % (u["name"], ",".join(unknown)[:300]))
            continue
        from . import props as _props
        failed, other = _props.split_scope(pid, u["name"], failed)
        rec["failed_tags"] = failed
        rec["out_of_scope_failed"] = other
        if other:
            rec["notes"].append("failed obligations of other properties (not counted here): " + ",".join(other))
        need = u.get("need_witness", [])
        missing = [w for w in need if not r.get("witnesses", {}).get(w)]
        if not failed:
            if missing:
                rec["status"] = "inconclusive"
                outcome["inconclusive"].append("%s: vacuity: path families empty: %s" % (u["name"], ",".join(missing)))
            else:
                rec["status"] = "pass"
            continue
        rec["status"] = "fail"
        rec["replays"] = {}
        new, unrepro = [], []
        for t in sorted(set(failed)):
            cex = (r.get("cexs") or {}).get(t)
            repro, path, nat = replay_cex(pid, dict(u, _tag=t, name=u["name"] + "-" + t.replace(":", "_").replace(" ", "_").replace("/", "_")[:40]), cex) if cex else ([], None, {"error": "no counterexample model"})
            rec["replays"][t] = {"path": path, "native": nat, "reproduced_tags": repro, "cex": cex}
            is_panic_tag = t.startswith("panic:") or "never_panics" in t
            if t not in repro and not (is_panic_tag and ("panic" in repro or nat.get("panic") or nat.get("result") == "panic")):
                unrepro.append(t)
                continue
            key = "%s::%s" % (u["name"], t)
            kf = None
            for f in known:
                if f.get("property") == pid and f.get("status") == "known" and f.get("key") == key:
                    kf = f
            if kf:
                outcome["known"].append((kf, path))
            else:
                new.append((t, path))
        if new:
            outcome["violations"].append({"unit": u["name"], "tags": [t for t, _ in new], "replay": new[0][1]})
        if unrepro:
            outcome["inconclusive"].append("%s: SMT counterexample(s) for %s did not reproduce natively (encoding/contract issue?)" % (u["name"], unrepro))
