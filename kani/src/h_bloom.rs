//! BloomFilter: C01 (no false negatives), C06 (union = OR, insert = OR with a
//! singleton), C11 (no growth), C19 (clear/clone).
use crate::models::*;
use crate::vsrc::*;
use pdatastructs::filters::bloomfilter::BloomFilter;
use pdatastructs::filters::Filter;

type BF = BloomFilter<Elem, IterBH>;

/// Arbitrary filter state: every bit pattern is reachable (insert elements whose
/// positions are exactly the set bits), so no invariant is needed.
fn arb(m: usize, k: usize, bh: IterBH) -> BF {
    let mut f = BF::with_params_and_hash(m, k, bh);
    for i in 0..m {
        let b = any_bool();
        f.verif_bits_mut().set(i, b);
    }
    f
}

fn any_idx(m: usize) -> usize {
    let i = any_usize();
    asm!(i < m);
    i
}

/// C01(a): insert(x) then query(x), from an arbitrary state.
fn insert_then_query(m: usize, k: usize) {
    let bh = any_iterbh();
    let mut f = arb(m, k, bh);
    let x = any_elem();
    let r = f.insert(&x);
    chk!("insert_ok", r.is_ok());
    chk!("query_after_insert", f.query(&x));
    chk!("not_empty_after_insert", !f.is_empty());
    cov!("insert_reported_new", matches!(r, Ok(true)));
    cov!("insert_reported_known", matches!(r, Ok(false)));
}

/// C01(b): a present element stays present across insert(y).
fn query_stable_under_insert(m: usize, k: usize) {
    let bh = any_iterbh();
    let mut f = arb(m, k, bh);
    let x = any_elem();
    let y = any_elem();
    let was = f.query(&x);
    let i = any_idx(m);
    let bit_before = f.verif_bits()[i];
    let blocks_before = f.verif_bits().as_slice().len();
    let _ = f.insert(&y);
    chk!("present_stays_present", !was || f.query(&x));
    chk!("bits_only_grow", !bit_before || f.verif_bits()[i]);
    chk!("m_unchanged", f.m() == m);
    chk!("blocks_unchanged", f.verif_bits().as_slice().len() == blocks_before);
    cov!("x_was_present", was);
    cov!("y_sets_new_bit", !bit_before && f.verif_bits()[i]);
}

/// C01(c)/C06: union is bitwise OR, `other` untouched, superset of both.
fn union_is_or(m: usize, k: usize) {
    let bh = any_iterbh();
    let mut a = arb(m, k, bh);
    let b = arb(m, k, bh);
    let x = any_elem();
    let in_a = a.query(&x);
    let in_b = b.query(&x);
    let i = any_idx(m);
    let (ba, bb) = (a.verif_bits()[i], b.verif_bits()[i]);
    let blocks_before = a.verif_bits().as_slice().len();
    let r = a.union(&b);
    chk!("union_ok", r.is_ok());
    chk!("union_bit_is_or", a.verif_bits()[i] == (ba | bb));
    chk!("other_unchanged", b.verif_bits()[i] == bb);
    chk!("union_superset", !(in_a || in_b) || a.query(&x));
    chk!("m_unchanged", a.m() == m && b.m() == m);
    chk!("blocks_unchanged", a.verif_bits().as_slice().len() == blocks_before);
    cov!("only_in_b", !in_a && in_b);
}

/// C06: insert(x) on an arbitrary state == state | (insert(x) on the empty filter).
fn insert_is_or_singleton(m: usize, k: usize) {
    let bh = any_iterbh();
    let mut f = arb(m, k, bh);
    let mut e = BF::with_params_and_hash(m, k, bh);
    let x = any_elem();
    let i = any_idx(m);
    let before = f.verif_bits()[i];
    chk!("fresh_bit_clear", !e.verif_bits()[i]);
    let _ = f.insert(&x);
    let _ = e.insert(&x);
    chk!("insert_is_or", f.verif_bits()[i] == (before | e.verif_bits()[i]));
    cov!("singleton_sets_bit", e.verif_bits()[i]);
}

/// C19: clear == fresh; clone equal and independent.
fn clear_clone(m: usize, k: usize) {
    let bh = any_iterbh();
    let mut f = arb(m, k, bh);
    let fresh = BF::with_params_and_hash(m, k, bh);
    let i = any_idx(m);
    let bit = f.verif_bits()[i];
    let c = f.clone();
    chk!("clone_equal_bit", c.verif_bits()[i] == bit);
    chk!("clone_equal_cfg", c.k() == f.k() && c.m() == f.m() && c.buildhasher() == f.buildhasher());
    // mutate the original, the clone must not move
    let y = any_elem();
    let op = any_bool();
    if op {
        let _ = f.insert(&y);
    } else {
        f.clear();
    }
    chk!("clone_independent", c.verif_bits()[i] == bit);
    // mutate the clone, the original must not move
    let mut c2 = f.clone();
    let bit2 = f.verif_bits()[i];
    let _ = c2.insert(&y);
    chk!("orig_independent", f.verif_bits()[i] == bit2);
    // clear
    f.clear();
    chk!("clear_bit_zero", !f.verif_bits()[i]);
    chk!("clear_eq_fresh", f.verif_bits()[i] == fresh.verif_bits()[i]);
    chk!("clear_cfg", f.k() == k && f.m() == m && f.verif_bits().as_slice().len() == fresh.verif_bits().as_slice().len());
    chk!("clear_is_empty", f.is_empty() && fresh.is_empty());
    let x = any_elem();
    chk!("clear_query_false", !f.query(&x));
    cov!("bit_was_set", bit);
}

/// is_empty <=> no bit set (C19 clause) on arbitrary state.
fn is_empty_iff(m: usize, k: usize) {
    let bh = any_iterbh();
    let f = arb(m, k, bh);
    let i = any_idx(m);
    chk!("is_empty_implies_bit_clear", !f.is_empty() || !f.verif_bits()[i]);
    cov!("empty", f.is_empty());
    cov!("nonempty", !f.is_empty());
}

macro_rules! bloom_cfg {
    ($m:literal, $k:literal, $u:literal, $a:ident, $b:ident, $c:ident, $d:ident, $e:ident, $f:ident) => {
        harness!($a, unwind $u, ln, { insert_then_query($m, $k) });
        harness!($b, unwind $u, ln, { query_stable_under_insert($m, $k) });
        harness!($c, unwind $u, ln, { union_is_or($m, $k) });
        harness!($d, unwind $u, ln, { insert_is_or_singleton($m, $k) });
        harness!($e, unwind $u, ln, { clear_clone($m, $k) });
        harness!($f, unwind $u, ln, { is_empty_iff($m, $k) });
    };
}

bloom_cfg!(7, 3, 9, bloom_insert_query_m7k3, bloom_stable_m7k3, bloom_union_m7k3, bloom_insert_or_m7k3, bloom_clear_clone_m7k3, bloom_is_empty_m7k3);
bloom_cfg!(1, 1, 3, bloom_insert_query_m1k1, bloom_stable_m1k1, bloom_union_m1k1, bloom_insert_or_m1k1, bloom_clear_clone_m1k1, bloom_is_empty_m1k1);
bloom_cfg!(64, 2, 66, bloom_insert_query_m64k2, bloom_stable_m64k2, bloom_union_m64k2, bloom_insert_or_m64k2, bloom_clear_clone_m64k2, bloom_is_empty_m64k2);
bloom_cfg!(130, 2, 132, bloom_insert_query_m130k2, bloom_stable_m130k2, bloom_union_m130k2, bloom_insert_or_m130k2, bloom_clear_clone_m130k2, bloom_is_empty_m130k2);
