"""Property -> units (solver-decided obligations)."""

PROPS = {}


def K(harness, tier="quick", what="", bounds="", **kw):
    d = {"engine": "K", "harness": harness, "tier": tier, "what": what, "bounds": bounds}
    d.update(kw)
    return d


def M(name, tier="quick", what="", bounds="", **kw):
    d = {"engine": "M", "name": name, "tier": tier, "what": what, "bounds": bounds}
    d.update(kw)
    return d


def prop(pid, **kw):
    PROPS[pid] = kw
    kw.setdefault("units", [])
    return kw


def select(pid, tier, seed):
    us = PROPS[pid]["units"]
    if tier == "thorough":
        return list(us)
    return [u for u in us if u["tier"] == "quick"]


COMMON_K_ASSUME = [
    "Kani 0.68 / CBMC 6.11 / CaDiCaL decide each harness over all values of its symbolic inputs within the stated sizes; unwinding assertions enabled",
    "hashers are harness models whose output words are symbolic (carried by the element); SipHash itself is not executed",
    "pre-states are built through `verif` feature hooks from symbolic raw contents constrained by the stated representation invariant",
    "CBMC 'NaN on ...' float checks are ignored (producing NaN is not a failure in Rust)",
]

BLOOM_CFGS = [("m7k3", "quick"), ("m1k1", "quick"), ("m64k2", "quick"), ("m130k2", "thorough")]
CMS_CFGS = [("w3d2_u8", "quick"), ("w2d3_u8", "quick"), ("w1d1_u8", "quick"), ("w2d3_u64", "thorough"), ("w3d2_u16", "thorough"),
            ("w2d3_u32", "thorough"), ("w3d2_usize", "thorough"), ("w3d2_u64", "thorough")]

# --------------------------------------------------------------------------- C02
p = prop("C02",
         functions=["CountMinSketch::{with_params_and_hasher,add,add_n,query_point,merge,clear,is_empty}", "HashIterBuilder::{new,iter_for,setup_f,h_i}", "HashIter::next"],
         bounds={"quick": "(w,d) in {(3,2),(2,3),(1,1)}, counter u8, all cell values, all hash residues (h1,h2,f symbolic bytes), one step from any valid state",
                 "thorough": "adds u16,u32,u64,usize counters at (3,2)/(2,3) with full-width symbolic cells"},
         outside=["tables larger than 3x2 / 2x3", "counter overflow (checked_add panics) is assumed away: N+n <= C::MAX", "hash words wider than 8 bits (only h mod w is consumed)"],
         assumptions=COMMON_K_ASSUME + ["inductive invariant: every row sums to the stream total N, query_point(x) >= true(x)"])
for cfg, tier in CMS_CFGS:
    p["units"] += [
        K("h_cms::cms_add_" + cfg, tier, "one add_n from an arbitrary valid table: return value == query_point, true<=est<=N, row-sum invariant", cfg),
        K("h_cms::cms_add1_" + cfg, tier, "add == add_n(1)", cfg),
        K("h_cms::cms_merge_" + cfg, tier, "merge of two arbitrary valid tables: cell-wise sum, bounds carried over", cfg),
        K("h_cms::cms_clear_clone_" + cfg, tier, "clear resets to the zero table (history restarts)", cfg),
    ]
