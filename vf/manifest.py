"""Generate /verif/MANIFEST.json from vf.props (run: python3-vt -m vf.manifest)."""
import json, os, subprocess
from .common import VERIF, REPO
from . import props

NA_FIXED = {
    "C03": "statistical: RMS/tail of the relative error over independent 64-bit hash seeds for 15 precisions; no universally quantified form a bounded SMT query can decide (float harmonic mean over up to 2^18 registers + 6-NN interpolation over ~3000 constants); no model counter available. See DESIGN.md §C03.",
    "C04": "asymptotic real-valued bound (centroids <= delta+3 for unbounded n; rank error <= c*W(n,delta)) through asin/sin/ln/exp; Kani has no asin (FFI), approximates ln/exp with a nondeterministic error band, and three merging inserts exhaust 46 GB. A bounded check at n<=4 says nothing about the regime n>=delta. See DESIGN.md §C04.",
    "C08": "a fraction over (hasher seed, element) pairs: depends on statistical independence of the double-hashing rows, not a pointwise assertion; only the sizing arithmetic w=ceil(e/eps), d=ceil(ln 1/delta) would be solver-decidable, which is not the property. See DESIGN.md §C08.",
}


def main():
    hooks_commits = []
    try:
        out = subprocess.run(["git", "-C", REPO, "log", "--format=%H %s"], capture_output=True, text=True).stdout
        for line in out.splitlines():
            h, _, s = line.partition(" ")
            if s.startswith("verif hooks"):
                hooks_commits.append(h)
    except Exception:
        pass
    checks, na = [], []
    ids = ["C%02d" % i for i in range(1, 21)]
    for pid in ids:
        P = props.PROPS.get(pid)
        if P and P.get("units") and P.get("claimed", True):
            checks.append({
                "property_id": pid,
                "quick_cmd": "./check %s --tier quick" % pid,
                "thorough_cmd": "./check %s --tier thorough" % pid,
                "evidence_file": "/verif/evidence/%s.json" % pid,
                "replay_cmd_template": "./check %s --replay {path}" % pid,
                "engine": P.get("engine", "kani"),
                "level_claimed": {"category": "model_checking", "text": P.get("level_text", ""), "design_ref": "DESIGN.md §4 " + pid},
                "level_note": P.get("level_note", ""),
                "technique": P.get("technique", "bounded model checking of the compiled code (Kani/CBMC, SAT)"),
            })
        else:
            na.append({"property_id": pid, "reason": NA_FIXED.get(pid) or (P or {}).get("na_reason") or "check not built yet in this revision of /verif (planned, see DESIGN.md)"})
    man = {
        "version": 1,
        "setup_cmd": "./setup.sh",
        "hooks": {
            "guard": "cargo features `verif` (raw-state accessors) and `verif-kicks2` (cuckoo eviction bound 2) of the pdatastructs crate; both off by default",
            "enable": "harness crate /verif/kani depends on pdatastructs = { path = \"/repo\", features = [\"verif\"] } (+ feature kicks2 -> verif-kicks2); engine M reads the MIR of the unmodified default build",
            "baseline_off_cmd": "cd /repo && cargo test --offline --no-fail-fast",
            "source_commits": hooks_commits,
            "add_only": True,
        },
        "engines": [
            {"name": "kani", "path": "/verif/kani", "serves_properties": [c["property_id"] for c in checks if "kani" in c["engine"]],
             "kind_free_text": "Kani 0.68 proof harnesses over symbolic inputs on the compiled crate (CBMC 6.11, CaDiCaL); native replay driver for counterexamples"},
            {"name": "mir2smt", "path": "/verif/mir2smt", "serves_properties": [c["property_id"] for c in checks if "mir2smt" in c["engine"]],
             "kind_free_text": "own symbolic interpreter for rustc's MIR dump of /repo -> z3 (cross-checked with cvc5); container contracts for HashMap/BTreeSet/IntVector"},
        ],
        "checks": checks,
        "not_applicable": na,
        "notes": "All checks are solver-based (bounded) checks of the real code; exit 0 = held within the stated bounds, 1 = reproduced violation, 2 = inconclusive (timeout, OOM, vacuity, non-reproducing counterexample). Known findings: /verif/known_findings.json.",
    }
    with open(os.path.join(VERIF, "MANIFEST.json"), "w") as f:
        json.dump(man, f, indent=1)
    try:
        import jsonschema
        jsonschema.validate(man, json.load(open("/root/.vp/MANIFEST.schema.json")))
        print("MANIFEST valid: %d checks, %d n/a" % (len(checks), len(na)))
    except ImportError:
        print("written (jsonschema not available)")


if __name__ == "__main__":
    main()
