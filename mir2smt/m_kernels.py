"""Engine M: small loop-free bodies. compat_hashset: the six methods of `impl Filter<T> for HashSet<T,S>` against a
HashSet contract over 3 keys (present[k]): new/insert/contains/extend/iter/cloned/clear/len/is_empty as documented by std."""
import re, time
import z3
from . import core
from .core import *
from .m_cuckoo import CkInterp

K = 3


class SetV:
    def __init__(self, present):
        self.present = list(present)


_cv = core.copyval
def _copyval(v):
    if isinstance(v, SetV):
        return SetV(v.present)
    return _cv(v)
core.copyval = _copyval


class CompatInterp(CkInterp):
    def sel3(self, arr, key):
        e = arr[K - 1]
        for k in range(K - 2, -1, -1):
            e = z3.If(key == k, arr[k], e)
        return e

    def call(self, fr, fname, args):
        a = [self.operand(fr, x) for x in args]
        if fname == '<T as Clone>::clone':
            return self.read_ref(a[0]) if isinstance(a[0], Ref) else a[0]
        if fname == 'HashSet::<T, S>::insert':
            st = self.read_ref(a[0])
            was = self.sel3(st.present, a[1])
            self.write_ref(a[0], SetV([z3.Or(st.present[k], a[1] == k) for k in range(K)]))
            return z3.Not(was)
        if fname == 'HashSet::<T, S>::contains::<T>':
            st = self.read_ref(a[0])
            key = self.read_ref(a[1]) if isinstance(a[1], Ref) else a[1]
            return self.sel3(st.present, key)
        if fname == 'HashSet::<T, S>::iter':
            return Opaque('setiter', st=self.read_ref(a[0]))
        if 'as Iterator>::cloned' in fname:
            return a[0]
        if fname.startswith('<HashSet<T, S> as Extend<T>>::extend'):
            st = self.read_ref(a[0])
            other = a[1].st
            self.write_ref(a[0], SetV([z3.Or(st.present[k], other.present[k]) for k in range(K)]))
            return Opaque('unit')
        if fname == 'HashSet::<T, S>::clear':
            self.write_ref(a[0], SetV([z3.BoolVal(False)] * K))
            return Opaque('unit')
        if fname == 'HashSet::<T, S>::len':
            st = self.read_ref(a[0])
            return z3.Sum([z3.If(p, bv(1), bv(0)) for p in st.present])
        if fname == 'HashSet::<T, S>::is_empty':
            st = self.read_ref(a[0])
            return z3.Not(z3.Or(st.present))
        return CkInterp.call(self, fr, fname, args)


def run_compat(fns, timeout_ms):
    t0 = time.time()
    out = {'paths': 0, 'queries': 0, 'failed': [], 'witnesses': {}, 'cexs': {}}
    pa = [z3.Bool('a%d' % k) for k in range(K)]
    pb = [z3.Bool('b%d' % k) for k in range(K)]
    x = z3.BitVec('x', 64)
    pre = z3.ULT(x, K)

    def go(name, with_elem=False, with_other=False):
        I = CompatInterp(fns, 1)
        I.shared = {'ctr': None, 'draws': [], 'stat': {}}
        world = {'locals': {'self': SetV(pa), 'other': SetV(pb), 'x': x}}
        I.world = world
        argv = [Ref((('local', world, 'self'), []))]
        if with_elem:
            argv.append(Ref((('local', world, 'x'), [])))
        if with_other:
            argv.append(Ref((('local', world, 'other'), [])))
        fn = I.find(r'compat::<impl.*>::%s$' % name)
        res = I.run(fn, argv, z3.BoolVal(True))
        out['paths'] += len(res)
        rets = [(pc, val, snap) for pc, kind, val, snap in res if kind == 'ret']
        for pc, kind, val, snap in res:
            if kind == 'panic':
                out['queries'] += 1
                if solve([pre, pc], timeout_ms)[0] != z3.unsat:
                    out['failed'].append('panic:%s %s' % (name, val[:30]))
        return rets

    def need(tag, pc, post):
        out['queries'] += 1
        r, _ = solve([pre, pc, z3.Not(post)], timeout_ms)
        if r != z3.unsat and tag not in out['failed']:
            out['failed'].append(tag if r == z3.sat else 'UNKNOWN:' + tag)
            out['cexs'][tag] = {'op': tag}

    def selp(arr, key):
        e = arr[K - 1]
        for k in range(K - 2, -1, -1):
            e = z3.If(key == k, arr[k], e)
        return e
    for pc, val, snap in go('insert', with_elem=True):
        st = snap['self']
        need('insert_returns_ok_of_newly_inserted', pc, z3.And(val.ok, val.payload == z3.Not(selp(pa, x))))
        need('insert_adds_exactly_the_element', pc, z3.And([st.present[k] == z3.Or(pa[k], x == k) for k in range(K)]))
    for pc, val, snap in go('query', with_elem=True):
        need('query_is_contains', pc, val == selp(pa, x))
        need('query_is_pure', pc, z3.And([snap['self'].present[k] == pa[k] for k in range(K)]))
    for pc, val, snap in go('union', with_other=True):
        need('union_is_set_union', pc, z3.And([snap['self'].present[k] == z3.Or(pa[k], pb[k]) for k in range(K)]))
        need('union_other_unchanged', pc, z3.And([snap['other'].present[k] == pb[k] for k in range(K)]))
        need('union_ok', pc, val.ok if isinstance(val, ResultVal) else z3.BoolVal(True))
    for pc, val, snap in go('clear'):
        need('clear_empties', pc, z3.And([z3.Not(p) for p in snap['self'].present]))
    for pc, val, snap in go('len'):
        need('len_is_cardinality', pc, val == z3.Sum([z3.If(p, bv(1), bv(0)) for p in pa]))
    for pc, val, snap in go('is_empty'):
        need('is_empty_iff_no_element', pc, val == z3.Not(z3.Or(pa)))
    out['witnesses']['ret'] = 1
    out['wall_s'] = round(time.time() - t0, 1)
    return out


def run(fns, unit):
    if unit['kernel'] == 'compat_hashset':
        return run_compat(fns, unit.get('solver_timeout_ms', 60000))
    return {'error': 'unknown kernel'}


# --------------------------------------------------------------------------- HyperLogLog::add_hashed for every precision
class ArrRef:
    pass


class HllInterp(Interp):
    """registers: Vec<u8> of symbolic length = (len, z3 Array BV64 -> BV8)."""

    def call(self, fr, fname, args):
        a = [self.operand(fr, x) for x in args]
        if fname == 'core::num::<impl u64>::leading_zeros':
            x = a[0]
            r = z3.BitVecVal(64, 32)
            for i in range(64):          # highest set bit wins: iterate from low to high
                r = z3.If(z3.Extract(i, i, x) == 1, z3.BitVecVal(63 - i, 32), r)
            return r
        if fname in ('<Vec<u8> as Index<usize>>::index', '<Vec<u8> as IndexMut<usize>>::index_mut'):
            vec = self.read_ref(a[0])
            ln, arr = vec.fields
            bad = z3.simplify(z3.And(self.cur_pc, z3.UGE(a[1], ln)))
            if not z3.is_false(bad):
                self.results.append((bad, 'panic', 'index out of bounds (registers)', None))
            self.cur_pc = z3.simplify(z3.And(self.cur_pc, z3.ULT(a[1], ln)))
            return Ref((('arrelem', a[0], a[1]), []))
        if fname == 'std::cmp::max::<u8>':
            return z3.If(z3.UGT(a[0], a[1]), a[0], a[1])
        return Interp.call(self, fr, fname, args)

    def read_ref(self, r):
        root, proj = r.place
        if root[0] == 'arrelem':
            vec = self.read_ref(root[1])
            return z3.Select(vec.fields[1], root[2])
        return Interp.read_ref(self, r)

    def write_ref(self, r, val):
        root, proj = r.place
        if root[0] == 'arrelem':
            vec = self.read_ref(root[1])
            self.write_ref(root[1], Struct('VecU8', [vec.fields[0], z3.Store(vec.fields[1], root[2], val)]))
            return
        return Interp.write_ref(self, r, val)


def run_hll_add_hashed(fns, timeout_ms):
    t0 = time.time()
    out = {'paths': 0, 'queries': 0, 'failed': [], 'witnesses': {}, 'cexs': {}}
    I = HllInterp(fns, 1)
    fn = I.find(r'hyperloglog::<impl.*>::add_hashed$')
    b = z3.BitVec('b', 64)
    h = z3.BitVec('h', 64)
    regs = z3.Array('regs', z3.BitVecSort(64), z3.BitVecSort(8))
    ln = z3.BitVec('len', 64)
    world = {'locals': {'self': Struct('HyperLogLog', [Struct('VecU8', [ln, regs]), b, Opaque('bh'), Opaque('ph')])}}
    I.world = world
    pre = z3.And(z3.UGE(b, 4), z3.ULE(b, 18), ln == (bv(1) << b))
    res = I.run(fn, [Ref((('local', world, 'self'), [])), h], z3.BoolVal(True))
    out['paths'] = len(res)
    # independent relational specification of the rank r (no count-leading-zeros):
    #   1 <= r <= 64-b+1;  r <= 64-b  =>  bit (64-r) of h is set and every higher bit is clear;  r = 64-b+1  =>  h >> b == 0
    r = z3.BitVec('r', 64)
    spec = z3.And(z3.UGE(r, 1), z3.ULE(r, 64 - b + 1),
                  z3.If(z3.ULE(r, 64 - b),
                        z3.And(z3.LShR(h, 64 - r) == 1),
                        z3.LShR(h, b) == 0))
    j = h & ((bv(1) << b) - 1)
    k = z3.BitVec('k', 64)
    for pc, kind, val, snap in res:
        out['queries'] += 1
        if kind == 'panic':
            rr, mdl = solve([pre, pc], timeout_ms)
            if rr != z3.unsat:
                tag = 'panic:add_hashed ' + val[:50]
                out['failed'].append(tag if rr == z3.sat else 'UNKNOWN:' + tag)
                if rr == z3.sat:
                    out['cexs'][tag] = {'op': 'add_hashed', 'b': mdl.eval(b, model_completion=True).as_long(), 'h': mdl.eval(h, model_completion=True).as_long(), 'old': 0}
            continue
        st = snap['self']
        regs2 = st.fields[0].fields[1]
        old = z3.Select(regs, j)
        r8 = z3.Extract(7, 0, r)
        checks = [('register_is_max_of_old_and_rank', z3.Select(regs2, j) == z3.If(z3.UGT(old, r8), old, r8)),
                  ('other_registers_unchanged', z3.Implies(z3.And(z3.ULT(k, ln), k != j), z3.Select(regs2, k) == z3.Select(regs, k))),
                  ('len_and_b_unchanged', z3.And(st.fields[0].fields[0] == ln, st.fields[1] == b))]
        for tag, post in checks:
            out['queries'] += 1
            rr, mdl = solve([pre, pc, spec, z3.Not(post)], timeout_ms)
            if rr == z3.sat and tag not in out['failed']:
                out['failed'].append(tag)
                g = lambda e: mdl.eval(e, model_completion=True)
                out['cexs'][tag] = {'op': 'add_hashed', 'b': g(b).as_long(), 'h': g(h).as_long(), 'old': g(old).as_long()}
            elif rr == z3.unknown:
                out['failed'].append('UNKNOWN:' + tag)
        # the spec is satisfiable and functional for every (b, h): witnesses
        if solve([pre, pc, spec, b == 18, r == 47], timeout_ms)[0] == z3.sat:
            out['witnesses']['rank_max_at_b18'] = 1
        if solve([pre, pc, spec, b == 4, r == 1], timeout_ms)[0] == z3.sat:
            out['witnesses']['rank_1_at_b4'] = 1
        out['witnesses']['ret'] = 1
    # spec totality: for every (b, h) some r satisfies it (otherwise the checks above would be vacuous for that input)
    out['queries'] += 1
    rr, _ = solve([pre, z3.ForAll([r], z3.Not(spec))], timeout_ms)
    if rr != z3.unsat:
        out['failed'].append('MODEL: rank specification not total' if rr == z3.sat else 'UNKNOWN:spec_total')
    out['wall_s'] = round(time.time() - t0, 1)
    return out


_old_run = run
def run(fns, unit):
    if unit['kernel'] == 'hll_add_hashed_all_b':
        return run_hll_add_hashed(fns, unit.get('solver_timeout_ms', 120000))
    return _old_run(fns, unit)


# --------------------------------------------------------------------------- HashIter::next at full 64-bit width
FVAL = z3.Function('f_of_index', z3.BitVecSort(64), z3.BitVecSort(64))


class HashIterInterp(Interp):
    def rvalue(self, fr, s):
        s = s.strip()
        m = re.match(r'^std::option::Option::<usize>::Some\((.*)\)$', s)
        if m:
            return OptionVal(z3.BoolVal(True), self.operand(fr, m.group(1)))
        if s == 'std::option::Option::<usize>::None':
            return OptionVal(z3.BoolVal(False), bv(0))
        return Interp.rvalue(self, fr, s)

    def call(self, fr, fname, args):
        a = [self.operand(fr, x) for x in args]
        if fname == 'HashIterBuilder::<B>::k':
            return self.read_ref(a[0]).fields[1]
        if fname == 'HashIterBuilder::<B>::m':
            return self.read_ref(a[0]).fields[0]
        if fname == 'HashIterBuilder::<B>::f':
            b = self.read_ref(a[0])
            # self.f[i]: the vector has k entries (setup_f), each already reduced mod m
            bad = z3.simplify(z3.And(self.cur_pc, z3.UGE(a[1], b.fields[1])))
            if not z3.is_false(bad):
                self.results.append((bad, 'panic', 'index out of bounds (f)', None))
            self.cur_pc = z3.simplify(z3.And(self.cur_pc, z3.ULT(a[1], b.fields[1])))
            return FVAL(a[1])
        return Interp.call(self, fr, fname, args)


def run_hashiter_next(fns, timeout_ms):
    t0 = time.time()
    out = {'paths': 0, 'queries': 0, 'failed': [], 'witnesses': {}, 'cexs': {}}
    I = HashIterInterp(fns, 1)
    fn = I.find(r'hash_utils::<impl.*>::next$')
    m_, k_, h1, h2, i_ = [z3.BitVec(n, 64) for n in ('m', 'k', 'h1', 'h2', 'i')]
    builder = Struct('HashIterBuilder', [m_, k_, Opaque('bh'), Opaque('f')])
    holder = {'locals': {'builder': builder}}
    world = {'locals': {'it': Struct('HashIter', [Ref((('local', holder, 'builder'), [])), h1, h2, i_])}}
    I.world = world
    res = I.run(fn, [Ref((('local', world, 'it'), []))], z3.BoolVal(True))
    out['paths'] = len(res)

    def lemmas(exprs):
        acc = set()

        def walk(e):
            if z3.is_app(e):
                if e.decl().name() in ('udiv64', 'urem64'):
                    acc.add((e.arg(0), e.arg(1)))
                for c in e.children():
                    walk(c)
        for e in exprs:
            walk(e)
        return [z3.Implies(d != 0, z3.ULT(core.UREM(a, d), d)) for a, d in acc]
    base = z3.And(z3.UGE(m_, 1), z3.ULT(h1, m_), z3.ULT(h2, m_), z3.ULT(FVAL(i_), m_))
    bound = z3.ULE(m_, 1 << 31)
    for pc, kind, val, snap in res:
        lem = lemmas([pc])
        out['queries'] += 1
        if kind == 'panic':
            r, mdl = solve([base, bound, pc] + lem, timeout_ms)
            if r != z3.unsat:
                tag = 'panic:HashIter::next ' + val[:50]
                out['failed'].append(tag if r == z3.sat else 'UNKNOWN:' + tag)
                out['cexs'][tag] = {'op': 'hashiter_next'}
            # outside the bound the overflow is real: recorded as a witness that the bound is needed
            if 'overflow' in val and solve([base, pc] + lem, timeout_ms)[0] == z3.sat:
                out['witnesses']['overflow_possible_when_m_above_2_31'] = 1
            continue
        st = snap['it']
        some = val.some if z3.is_expr(val.some) else z3.BoolVal(val.some)
        lem = lemmas([pc, val.payload] if z3.is_expr(val.payload) else [pc])
        checks = [('next_is_some_iff_i_below_k', some == z3.ULT(i_, k_)),
                  ('next_yields_position_below_m', z3.Implies(some, z3.ULT(val.payload, m_))),
                  ('next_advances_i_by_one', st.fields[3] == z3.If(some, i_ + 1, i_)),
                  ('next_keeps_h1_h2', z3.And(st.fields[1] == h1, st.fields[2] == h2))]
        for tag, post in checks:
            out['queries'] += 1
            r, mdl = solve([base, bound, pc, z3.Not(post)] + lem, timeout_ms)
            if r != z3.unsat and tag not in out['failed']:
                out['failed'].append(tag if r == z3.sat else 'UNKNOWN:' + tag)
                out['cexs'][tag] = {'op': 'hashiter_next'}
        out['witnesses']['ret'] = 1
    out['wall_s'] = round(time.time() - t0, 1)
    return out


_old_run2 = run
def run(fns, unit):
    if unit['kernel'] == 'hashiter_next':
        return run_hashiter_next(fns, unit.get('solver_timeout_ms', 120000))
    return _old_run2(fns, unit)
