//! Native replay driver: re-executes a harness body against the real crate with
//! the concrete values of a solver counterexample.
//!
//! usage: replay <file>      file: line 1 = harness name, then one hex string per value
//!        replay --list
//! Output: one JSON object on stdout.
#[cfg(kani)]
fn main() {}

#[cfg(not(kani))]
use std::io::Read;
#[cfg(not(kani))]
use vharness::vsrc::native;

#[cfg(not(kani))]
fn hex(s: &str) -> Vec<u8> {
    let s = s.trim();
    (0..s.len() / 2)
        .map(|i| u8::from_str_radix(&s[2 * i..2 * i + 2], 16).unwrap())
        .collect()
}

#[cfg(not(kani))]
fn main() {
    let args: Vec<String> = std::env::args().collect();
    if args.len() == 2 && args[1] == "--list" {
        for n in vharness::registry::NAMES {
            println!("{}", n);
        }
        return;
    }
    if args.len() >= 4 && args[1] == "--random" {
        // replay --random <harness> <trials> [seed]: sample the harness natively, count witness hits
        let name = args[2].clone();
        let trials: u64 = args[3].parse().unwrap();
        let seed: u64 = args.get(4).map(|s| s.parse().unwrap()).unwrap_or(1);
        let f = vharness::registry::lookup(&name).expect("unknown harness");
        std::panic::set_hook(Box::new(|_| {}));
        let mut valid = 0u64;
        let mut counts: std::collections::BTreeMap<&'static str, u64> = Default::default();
        let mut failed: std::collections::BTreeMap<&'static str, u64> = Default::default();
        let mut first: std::collections::BTreeMap<&'static str, u64> = Default::default();
        let mut panics = 0u64;
        let mut first_panic: i64 = -1;
        let only: Option<u64> = args.get(5).map(|s| s.parse().unwrap());
        for t in 0..trials {
            if let Some(o) = only {
                if t != o {
                    continue;
                }
            }
            native::load_random(seed.wrapping_mul(0x9E3779B97F4A7C15).wrapping_add(t.wrapping_mul(0xD1B54A32D192ED03)));
            vharness::models::rng_reset();
            let r = std::panic::catch_unwind(f);
            let st = native::take();
            let stopped = matches!(&r, Err(e) if e.downcast_ref::<native::AssumeStop>().is_some());
            if stopped {
                continue;
            }
            valid += 1;
            if r.is_err() {
                panics += 1;
                if first_panic < 0 {
                    first_panic = t as i64;
                }
            }
            for c in st.covers_hit {
                *counts.entry(c).or_insert(0) += 1;
            }
            for c in st.failed {
                *failed.entry(c).or_insert(0) += 1;
                first.entry(c).or_insert(t);
            }
        }
        let fmt = |m: &std::collections::BTreeMap<&'static str, u64>| m.iter().map(|(k, v)| format!("\"{}\":{}", k, v)).collect::<Vec<_>>().join(",");
        println!("{{\"harness\":\"{}\",\"trials\":{},\"seed\":{},\"valid_trials\":{},\"covers\":{{{}}},\"failed\":{{{}}},\"first_failing_trial\":{{{}}},\"panics\":{},\"first_panic_trial\":{}}}", name, trials, seed, valid, fmt(&counts), fmt(&failed), fmt(&first), panics, first_panic);
        return;
    }
    let mut txt = String::new();
    std::fs::File::open(&args[1])
        .expect("open replay file")
        .read_to_string(&mut txt)
        .unwrap();
    std::panic::set_hook(Box::new(|_| {}));
    if let Some(first) = txt.lines().find(|l| !l.trim().is_empty() && !l.starts_with('#')) {
        if let Some(what) = first.trim().strip_prefix("exec ") {
            let m = vharness::mexec::kv(&txt);
            let out = match what.trim() {
                "cuckoo" => vharness::mexec::exec_cuckoo(&m),
                "lossy" => vharness::mexec::exec_lossy(&m),
                "heap" => vharness::mexec::exec_heap(&m),
                "qf" => vharness::mexec::exec_qf(&m),
                "serde" => vharness::mexec::exec_serde(&m),
                "hll" => vharness::mexec::exec_hll(&m),
                _ => "{\"error\":\"unknown exec\"}".to_string(),
            };
            println!("{}", out);
            return;
        }
    }
    let mut lines = txt.lines();
    let name = lines.next().unwrap().trim().to_string();
    let script: Vec<Vec<u8>> = lines.filter(|l| !l.trim().is_empty() && !l.starts_with('#')).map(hex).collect();
    let f = match vharness::registry::lookup(&name) {
        Some(f) => f,
        None => {
            println!("{{\"harness\":\"{}\",\"error\":\"unknown harness\"}}", name);
            std::process::exit(3);
        }
    };
    native::load(script);
    vharness::models::rng_reset();
    std::panic::set_hook(Box::new(|_| {}));
    let r = std::panic::catch_unwind(f);
    let st = native::take();
    let mut panic_msg: Option<String> = None;
    let mut assume_stop = false;
    if let Err(e) = r {
        if e.downcast_ref::<native::AssumeStop>().is_some() {
            assume_stop = true;
        } else if e.downcast_ref::<native::UnderrunStop>().is_some() {
            // trace exhausted: fine, results so far stand
        } else if let Some(s) = e.downcast_ref::<&str>() {
            panic_msg = Some(s.to_string());
        } else if let Some(s) = e.downcast_ref::<String>() {
            panic_msg = Some(s.clone());
        } else {
            panic_msg = Some("panic".to_string());
        }
    }
    let esc = |s: &str| s.replace('\\', "\\\\").replace('"', "\\\"").replace('\n', " ");
    let failed: Vec<String> = st.failed.iter().map(|t| format!("\"{}\"", esc(t))).collect();
    let covers: Vec<String> = st.covers_hit.iter().map(|t| format!("\"{}\"", esc(t))).collect();
    println!(
        "{{\"harness\":\"{}\",\"values_used\":{},\"values_given\":{},\"underrun\":{},\"size_mismatch\":{},\"assume_failed\":{},\"assume_stop\":{},\"failed\":[{}],\"passed\":{},\"covers\":[{}],\"panic\":{}}}",
        esc(&name),
        st.pos,
        st.script.len(),
        st.underrun,
        st.size_mismatch,
        match st.assume_failed { Some(t) => format!("\"{}\"", esc(t)), None => "null".into() },
        assume_stop,
        failed.join(","),
        st.passed,
        covers.join(","),
        match panic_msg { Some(m) => format!("\"{}\"", esc(&m)), None => "null".into() },
    );
}
