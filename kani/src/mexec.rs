//! Native executors for engine-M counterexamples and translator validation:
//! build a concrete pre-state through the `verif` hooks, run one real operation,
//! print the post-state as JSON.  The property itself is re-evaluated by the
//! Python side on these native results.
#![cfg(not(kani))]
use pdatastructs::filters::cuckoofilter::CuckooFilter;
use pdatastructs::filters::Filter;
use rand::RngCore;
use std::collections::{HashMap, VecDeque};
use std::hash::{BuildHasher, Hash, Hasher};

pub fn kv(txt: &str) -> HashMap<String, String> {
    let mut m = HashMap::new();
    for l in txt.lines() {
        let l = l.trim();
        if l.is_empty() || l.starts_with('#') {
            continue;
        }
        let mut it = l.splitn(2, ' ');
        let k = it.next().unwrap().to_string();
        let v = it.next().unwrap_or("").trim().to_string();
        m.insert(k, v);
    }
    m
}

pub fn nums(s: &str) -> Vec<u64> {
    s.split(',').filter(|x| !x.trim().is_empty()).map(|x| x.trim().parse::<u64>().unwrap()).collect()
}

fn json_list(v: &[u64]) -> String {
    format!("[{}]", v.iter().map(|x| x.to_string()).collect::<Vec<_>>().join(","))
}

// ---------------------------------------------------------------- cuckoo
#[derive(Clone, Debug, PartialEq, Eq)]
pub struct MapBH {
    pub map: Vec<(u64, u64)>,
}
pub struct MapHasher {
    map: Vec<(u64, u64)>,
    iv: usize,
    n: usize,
    w1: u64,
    w2: u64,
}
impl Hasher for MapHasher {
    fn finish(&self) -> u64 {
        if self.iv == 0 {
            // fingerprint = 1 + finish % (2^64 - 1)  => finish = f - 1
            self.w1.wrapping_sub(1)
        } else if self.n == 3 {
            self.w2
        } else {
            self.map.iter().find(|(k, _)| *k == self.w1).map(|(_, v)| *v).unwrap_or(0)
        }
    }
    fn write(&mut self, _b: &[u8]) {}
    fn write_usize(&mut self, i: usize) {
        self.iv = i;
        self.n += 1;
    }
    fn write_u64(&mut self, i: u64) {
        if self.n == 1 {
            self.w1 = i
        } else {
            self.w2 = i
        };
        self.n += 1;
    }
}
impl BuildHasher for MapBH {
    type Hasher = MapHasher;
    fn build_hasher(&self) -> MapHasher {
        MapHasher { map: self.map.clone(), iv: 0, n: 0, w1: 0, w2: 0 }
    }
}
#[derive(Clone, Copy, Debug)]
pub struct Elem64 {
    pub f: u64,
    pub i: u64,
}
impl Hash for Elem64 {
    fn hash<H: Hasher>(&self, s: &mut H) {
        s.write_u64(self.f);
        s.write_u64(self.i);
    }
}

#[derive(Clone, Debug)]
pub enum Draw {
    Bool(bool),
    Range(u64, u64),
}
#[derive(Clone, Debug)]
pub struct ScriptRng {
    pub q: VecDeque<Draw>,
    pub used: usize,
    pub extra: usize,
    pub mismatch: bool,
}
impl RngCore for ScriptRng {
    fn next_u32(&mut self) -> u32 {
        match self.q.pop_front() {
            Some(Draw::Bool(b)) => {
                self.used += 1;
                if b {
                    0x8000_0000
                } else {
                    0
                }
            }
            Some(_) => {
                self.mismatch = true;
                0
            }
            None => {
                self.extra += 1;
                0
            }
        }
    }
    fn next_u64(&mut self) -> u64 {
        match self.q.pop_front() {
            Some(Draw::Range(j, range)) => {
                self.used += 1;
                if range == 0 {
                    return 0;
                }
                let num: u128 = (j as u128) << 64;
                ((num + (range as u128) - 1) / (range as u128)) as u64
            }
            Some(_) => {
                self.mismatch = true;
                0
            }
            None => {
                self.extra += 1;
                0
            }
        }
    }
    fn fill_bytes(&mut self, _d: &mut [u8]) {}
    fn try_fill_bytes(&mut self, _d: &mut [u8]) -> Result<(), rand::Error> {
        Ok(())
    }
}

type CF = CuckooFilter<Elem64, ScriptRng, MapBH>;

fn dump(f: &CF, n: usize) -> Vec<u64> {
    (0..n).map(|i| f.verif_slot(i)).collect()
}

pub fn exec_cuckoo(m: &HashMap<String, String>) -> String {
    let bs = m["bs"].parse::<usize>().unwrap();
    let nb = m["nb"].parse::<usize>().unwrap();
    let map: Vec<(u64, u64)> = m
        .get("hash")
        .map(|s| {
            s.split(',')
                .filter(|x| !x.is_empty())
                .map(|p| {
                    let mut it = p.split(':');
                    (it.next().unwrap().parse().unwrap(), it.next().unwrap().parse().unwrap())
                })
                .collect()
        })
        .unwrap_or_default();
    let bh = MapBH { map };
    let mut draws = VecDeque::new();
    for d in m.get("draws").map(|s| s.as_str()).unwrap_or("").split(',').filter(|x| !x.is_empty()) {
        if let Some(b) = d.strip_prefix('b') {
            draws.push_back(Draw::Bool(b == "1"));
        } else if let Some(r) = d.strip_prefix('r') {
            let mut it = r.split('/');
            draws.push_back(Draw::Range(it.next().unwrap().parse().unwrap(), it.next().unwrap().parse().unwrap()));
        }
    }
    let rng = ScriptRng { q: draws, used: 0, extra: 0, mismatch: false };
    let mk = |slots: &[u64], n: usize, rng: ScriptRng| -> CF {
        let mut f = CF::with_params_and_hash(rng, bs, nb, 64, bh.clone());
        for (i, v) in slots.iter().enumerate() {
            f.verif_set_slot(i, *v);
        }
        f.verif_set_n(n);
        f
    };
    let slots = nums(&m["slots"]);
    let total = bs * nb;
    let mut a = mk(&slots, m["n"].parse().unwrap(), rng);
    let op = m["op"].as_str();
    let x = Elem64 { f: m.get("f").map(|s| s.parse().unwrap()).unwrap_or(1), i: m.get("i1").map(|s| s.parse().unwrap()).unwrap_or(0) };
    let mut extra = String::new();
    let result = match op {
        "insert" => match a.insert(&x) {
            Ok(true) => "ok_true",
            Ok(false) => "ok_false",
            Err(_) => "err",
        },
        "delete" => {
            if a.delete(&x) {
                "true"
            } else {
                "false"
            }
        }
        "query" => {
            if a.query(&x) {
                "true"
            } else {
                "false"
            }
        }
        "union" => {
            let b = mk(&nums(&m["slots_b"]), m["n_b"].parse().unwrap(), ScriptRng { q: VecDeque::new(), used: 0, extra: 0, mismatch: false });
            let r = a.union(&b);
            extra = format!(",\"slots_b\":{},\"n_b\":{}", json_list(&dump(&b, total)), b.len());
            if r.is_ok() {
                "ok"
            } else {
                "err"
            }
        }
        _ => "unknown_op",
    };
    let (s1, i1, i2) = a.verif_start(&x);
    format!(
        "{{\"result\":\"{}\",\"slots\":{},\"n\":{},\"is_empty\":{},\"start\":[{},{},{}],\"max_kicks\":{},\"table_len\":{}{}}}",
        result,
        json_list(&dump(&a, total)),
        a.len(),
        a.is_empty(),
        s1,
        i1,
        i2,
        CF::verif_max_kicks(),
        a.verif_table_len(),
        extra
    )
}

// ---------------------------------------------------------------- lossy counter
use pdatastructs::countminsketch::CountMinSketch;
use pdatastructs::topk::cmsheap::CMSHeap;
use pdatastructs::topk::lossycounter::LossyCounter;

fn triples(s: &str) -> Vec<(u64, usize, usize)> {
    // "k:f:d,k:f:d"
    s.split(',')
        .filter(|x| !x.trim().is_empty())
        .map(|t| {
            let v: Vec<u64> = t.split(':').map(|x| x.trim().parse().unwrap()).collect();
            (v[0], v[1] as usize, *v.get(2).unwrap_or(&0) as usize)
        })
        .collect()
}

pub fn exec_lossy(m: &HashMap<String, String>) -> String {
    let width: usize = m["width"].parse().unwrap();
    let n: usize = m["n"].parse().unwrap();
    let eps = 1.0 / (width as f64);
    let known = triples(m.get("known").map(|s| s.as_str()).unwrap_or(""));
    let mut c = LossyCounter::<u64>::verif_from_parts(eps, width, n, known);
    let op = m["op"].as_str();
    let mut result = String::from("null");
    let mut out_keys: Vec<u64> = vec![];
    match op {
        "add" => {
            let r = std::panic::catch_unwind(std::panic::AssertUnwindSafe(|| c.add(m["y"].parse().unwrap())));
            result = match r {
                Ok(b) => format!("\"{}\"", b),
                Err(_) => "\"panic\"".into(),
            };
        }
        "query" => {
            let thr = m["a64"].parse::<f64>().unwrap() / 64.0;
            out_keys = c.query(thr).collect();
            out_keys.sort();
        }
        "clear" => c.clear(),
        _ => {}
    }
    let mut kn = c.verif_known();
    kn.sort();
    format!(
        "{{\"result\":{},\"n\":{},\"width\":{},\"epsilon\":{},\"known\":[{}],\"query\":{}}}",
        result,
        c.n(),
        c.width(),
        c.epsilon(),
        kn.iter().map(|(k, f, d)| format!("[{},{},{}]", k, f, d)).collect::<Vec<_>>().join(","),
        json_list(&out_keys)
    )
}

// ---------------------------------------------------------------- CMSHeap
pub fn exec_heap(m: &HashMap<String, String>) -> String {
    let k: usize = m["k"].parse().unwrap();
    // a 1x1 sketch: `add` returns cell+1, so any estimate c is realised by presetting the cell to c-1
    let mut cms = CountMinSketch::<u64>::with_params(1, 1);
    let c: usize = m.get("c").map(|s| s.parse().unwrap()).unwrap_or(1);
    cms.verif_table_mut()[0] = c.saturating_sub(1);
    let pairs = |s: &str| -> Vec<(u64, usize)> { triples(s).into_iter().map(|(a, b, _)| (a, b)).collect() };
    let mut h = CMSHeap::verif_from_parts(k, cms, pairs(m.get("map").map(|s| s.as_str()).unwrap_or("")), pairs(m.get("tree").map(|s| s.as_str()).unwrap_or("")));
    let op = m["op"].as_str();
    let mut result = String::from("\"ok\"");
    match op {
        "add" => {
            let y: u64 = m["y"].parse().unwrap();
            if std::panic::catch_unwind(std::panic::AssertUnwindSafe(|| h.add(y))).is_err() {
                result = "\"panic\"".into();
            }
        }
        "clear" => h.clear(),
        _ => {}
    }
    let cms_cell: usize = h.verif_cms_mut().verif_table()[0] as usize;
    let (mut mp, tr) = h.verif_parts();
    mp.sort();
    let it: Vec<u64> = h.iter().collect();
    let f = |v: &Vec<(u64, usize)>| v.iter().map(|(a, b)| format!("[{},{}]", a, b)).collect::<Vec<_>>().join(",");
    format!(
        "{{\"result\":{},\"cms_cell\":{},\"map\":[{}],\"tree\":[{}],\"iter\":{},\"is_empty\":{},\"k\":{},\"debug_assertions\":{}}}",
        result,
        cms_cell,
        f(&mp),
        f(&tr),
        json_list(&it),
        h.is_empty(),
        h.k(),
        cfg!(debug_assertions)
    )
}

// ---------------------------------------------------------------- quotient filter
use crate::models::{IdBH, H64};
use pdatastructs::filters::quotientfilter::QuotientFilter;

fn qr_pairs(s: &str) -> Vec<(u64, u64)> {
    s.split(',')
        .filter(|x| !x.trim().is_empty())
        .map(|t| {
            let v: Vec<u64> = t.split(':').map(|x| x.trim().parse().unwrap()).collect();
            (v[0], v[1])
        })
        .collect()
}

pub fn exec_qf(m: &HashMap<String, String>) -> String {
    let bq: usize = m["bq"].parse().unwrap();
    let br: usize = m["br"].parse().unwrap();
    let key = |q: u64, r: u64| H64((q << br) | r);
    // reach the pre-state through the public API: insert the members (any order gives the same state)
    let mut f = QuotientFilter::<H64, IdBH>::with_params_and_hash(bq, br, IdBH);
    let mut reach_ok = true;
    for (q, r) in qr_pairs(m.get("members").map(|s| s.as_str()).unwrap_or("")) {
        reach_ok &= f.insert(&key(q, r)).is_ok();
    }
    let op = m["op"].as_str();
    let mut extra = String::new();
    let result = match op {
        "insert" => {
            let y = qr_pairs(&m["y"])[0];
            match f.insert(&key(y.0, y.1)) {
                Ok(true) => "ok_true",
                Ok(false) => "ok_false",
                Err(_) => "err",
            }
        }
        "query" => {
            let y = qr_pairs(&m["y"])[0];
            if f.query(&key(y.0, y.1)) {
                "true"
            } else {
                "false"
            }
        }
        "union" => {
            let mut g = QuotientFilter::<H64, IdBH>::with_params_and_hash(bq, br, IdBH);
            for (q, r) in qr_pairs(m.get("other").map(|s| s.as_str()).unwrap_or("")) {
                reach_ok &= g.insert(&key(q, r)).is_ok();
            }
            let before: Vec<_> = (0..(1usize << bq)).map(|i| g.verif_slot(i)).collect();
            let r = f.union(&g);
            let after: Vec<_> = (0..(1usize << bq)).map(|i| g.verif_slot(i)).collect();
            extra = format!(",\"other_unchanged\":{}", before == after);
            if r.is_ok() {
                "ok"
            } else {
                "err"
            }
        }
        _ => "unknown_op",
    };
    let slots: Vec<String> = (0..(1usize << bq))
        .map(|i| {
            let s = f.verif_slot(i);
            format!("[{},{},{},{}]", s.0, s.1, s.2, s.3)
        })
        .collect();
    format!("{{\"result\":\"{}\",\"reach_ok\":{},\"slots\":[{}],\"len\":{}{}}}", result, reach_ok, slots.join(","), f.len(), extra)
}

// ---------------------------------------------------------------- HLL deserialisation
pub fn exec_serde(m: &HashMap<String, String>) -> String {
    use crate::h_serde::{Doc, DocDe, VErr};
    use pdatastructs::hyperloglog::HyperLogLog;
    use serde::Deserialize;
    let fields: Vec<u8> = m
        .get("doc")
        .map(|s| s.as_str())
        .unwrap_or("")
        .split(',')
        .filter(|x| !x.is_empty())
        .map(|f| match f.trim() {
            "registers" => 0u8,
            "b" => 1,
            _ => 2,
        })
        .collect();
    let len: usize = m["len"].parse().unwrap();
    let b: u64 = m["b"].parse().unwrap();
    let mut order = [0u8; 4];
    for (i, f) in fields.iter().enumerate().take(4) {
        order[i] = *f;
    }
    let doc = Doc { order: [order[0], order[1], order[2]], n: fields.len().min(3), b, regs: vec![0u8; len], pos: 0 };
    if fields.len() > 3 {
        return "{\"error\":\"documents with more than 3 entries are not supported by the native executor\"}".to_string();
    }
    let r: Result<HyperLogLog<H64, IdBH>, VErr> = HyperLogLog::deserialize(DocDe(doc));
    match r {
        Ok(h) => format!("{{\"result\":\"ok\",\"b\":{},\"len\":{}}}", h.b(), h.registers().len()),
        Err(_) => "{\"result\":\"err\"}".to_string(),
    }
}

// ---------------------------------------------------------------- HyperLogLog::add_hashed (any precision)
pub fn exec_hll(m: &HashMap<String, String>) -> String {
    use pdatastructs::hyperloglog::HyperLogLog;
    let b: usize = m["b"].parse().unwrap();
    let h: u64 = m["h"].parse().unwrap();
    let old: u8 = m.get("old").map(|s| s.parse().unwrap()).unwrap_or(0);
    let len = 1usize << b;
    let j = (h & ((1u64 << b) - 1)) as usize;
    let mut regs = vec![0u8; len];
    regs[j] = old;
    let mut s = HyperLogLog::<H64, IdBH>::with_registers_and_hash(b, regs, IdBH);
    let r = std::panic::catch_unwind(std::panic::AssertUnwindSafe(|| s.add_hashed(h)));
    let others_zero = s.registers().iter().enumerate().all(|(i, v)| i == j || *v == 0);
    format!(
        "{{\"result\":\"{}\",\"j\":{},\"reg_j\":{},\"others_unchanged\":{},\"len\":{}}}",
        if r.is_ok() { "ok" } else { "panic" },
        j,
        s.registers()[j],
        others_zero,
        s.registers().len()
    )
}
