"""Property -> units (solver-decided obligations)."""

PROPS = {}


def K(harness, tier="quick", what="", bounds="", **kw):
    d = {"engine": "K", "harness": harness, "tier": tier, "what": what, "bounds": bounds}
    d.update(kw)
    return d


def M(name, tier="quick", what="", bounds="", **kw):
    d = {"engine": "M", "name": name, "tier": tier, "what": what, "bounds": bounds}
    d.update(kw)
    return d


def prop(pid, **kw):
    PROPS[pid] = kw
    kw.setdefault("units", [])
    return kw


def select(pid, tier, seed):
    us = PROPS[pid]["units"]
    if tier == "thorough":
        return list(us)
    return [u for u in us if u["tier"] == "quick"]


COMMON_K_ASSUME = [
    "Kani 0.68 / CBMC 6.11 / CaDiCaL decide each harness over all values of its symbolic inputs within the stated sizes; unwinding assertions enabled",
    "hashers are harness models whose output words are symbolic (carried by the element); SipHash itself is not executed",
    "pre-states are built through `verif` feature hooks from symbolic raw contents constrained by the stated representation invariant",
    "CBMC 'NaN on ...' float checks are ignored (producing NaN is not a failure in Rust)",
]

BLOOM_CFGS = [("m7k3", "quick"), ("m1k1", "quick"), ("m64k2", "quick"), ("m130k2", "thorough")]
CMS_CFGS = [("w3d2_u8", "quick"), ("w2d3_u8", "quick"), ("w1d1_u8", "quick"), ("w2d3_u64", "thorough"), ("w3d2_u16", "thorough"),
            ("w2d3_u32", "thorough"), ("w3d2_usize", "thorough"), ("w3d2_u64", "thorough")]

# --------------------------------------------------------------------------- C02
p = prop("C02",
         functions=["CountMinSketch::{with_params_and_hasher,add,add_n,query_point,merge,clear,is_empty}", "HashIterBuilder::{new,iter_for,setup_f,h_i}", "HashIter::next"],
         bounds={"quick": "(w,d) in {(3,2),(2,3),(1,1)}, counter u8, all cell values, all hash residues (h1,h2,f symbolic bytes), one step from any valid state",
                 "thorough": "adds u16,u32,u64,usize counters at (3,2)/(2,3) with full-width symbolic cells"},
         outside=["tables larger than 3x2 / 2x3", "counter overflow (checked_add panics) is assumed away: N+n <= C::MAX", "hash words wider than 8 bits (only h mod w is consumed)"],
         assumptions=COMMON_K_ASSUME + ["inductive invariant: every row sums to the stream total N, query_point(x) >= true(x)"])
for cfg, tier in CMS_CFGS:
    p["units"] += [
        K("h_cms::cms_add_" + cfg, tier, "one add_n from an arbitrary valid table: return value == query_point, true<=est<=N, row-sum invariant", cfg),
        K("h_cms::cms_add1_" + cfg, tier, "add == add_n(1)", cfg),
        K("h_cms::cms_merge_" + cfg, tier, "merge of two arbitrary valid tables: cell-wise sum, bounds carried over", cfg),
        K("h_cms::cms_clear_clone_" + cfg, tier, "clear resets to the zero table (history restarts)", cfg),
    ]

# --------------------------------------------------------------------------- C17
p = prop("C17",
         functions=["HyperLogLog::{with_hash,with_registers_and_hash,add,add_hashed,registers,merge,clear,is_empty,b,m}"],
         bounds="b = 4 (16 registers, arbitrary u8 contents), full 64-bit symbolic hash values; one step from any register vector",
         outside=["precisions b = 5..18 in the Kani harnesses (engine M covers add_hashed for all b)", "count() accuracy (C03)"],
         assumptions=COMMON_K_ASSUME + ["every register vector of length 2^b is a valid state (with_registers_and_hash accepts it)"])
p["units"] += [
    K("h_hll::hll_add_hashed_b4", "quick", "add_hashed(h): only register h&15 changes, to max(old, rank(h)); rank by independent bit-scan spec"),
    K("h_hll::hll_add_is_add_hashed_b4", "quick", "add(x) == add_hashed(hash_one(x))"),
    K("h_hll::hll_order_idempotence_b4", "quick", "two arbitrary hashes: order and repetition do not matter"),
    K("h_hll::hll_reconstruct_b4", "quick", "with_registers_and_hash(b, registers().to_vec(), hasher) == original"),
]
# --------------------------------------------------------------------------- C18
p = prop("C18",
         functions=["ReservoirSampling::{new,add,reservoir,i,k,is_empty,clear}", "rand::Rng::gen_range (real sampler, wmul kernel stubbed)"],
         bounds="k in {1,2,3}; i symbolic in [0, 2^20]; skip_until arbitrary <= 2^22; every RNG word arbitrary; one add from any valid state; plus 5 adds through the API at k=2",
         outside=["k > 3", "i > 2^20 (i+g far from overflow below that)", "ln/floor float path uses CBMC's approximations (only no-panic and slot structure asserted on it)"],
         assumptions=COMMON_K_ASSUME + ["RNG: every next_u32/next_u64 word arbitrary; <usize as WideningMultiply>::wmul stubbed to return (j,0) with arbitrary j<range (kills rand's rejection loop)",
                                        "state invariant: len = min(i,k), ids distinct and < i, prefix order while i <= k"])
p["units"] += [
    K("h_reservoir::reservoir_step_k1", "quick", "one add from any valid state, k=1"),
    K("h_reservoir::reservoir_step_k2", "quick", "one add from any valid state, k=2"),
    K("h_reservoir::reservoir_step_k3", "quick", "one add from any valid state, k=3"),
    K("h_reservoir::reservoir_fill_k1_i0", "quick", "fill phase, k=1, i=0"),
    K("h_reservoir::reservoir_fill_k3_i0", "quick", "fill phase, k=3, i=0"),
    K("h_reservoir::reservoir_fill_k3_i1", "quick", "fill phase, k=3, i=1"),
    K("h_reservoir::reservoir_fill_k3_i2", "quick", "fill phase, k=3, i=2"),
    K("h_reservoir::reservoir_api_prefix_k2", "quick", "new + 5 adds through the public API: prefix in order until the (k+1)-th add"),
]

# --------------------------------------------------------------------------- C11
p = prop("C11",
         functions=["helpers::all_zero_intvector", "CuckooFilter::with_params_and_hash", "QuotientFilter::with_params_and_hash", "BloomFilter::with_params_and_hash",
                    "CountMinSketch::with_params_and_hasher", "HyperLogLog::with_hash"],
         bounds="cuckoo: l in [2,64], bucketsize in [2,8], n_buckets in {2..128}; QF: q in [1,10], r in [1,64-q]; Bloom m <= 4096; CMS w<=64,d<=8; HLL b<=10 (all symbolic)",
         outside=["TDigest centroid count O(delta) (float; same obstacle as C04)", "LossyCounter (exempt by the statement)"],
         assumptions=COMMON_K_ASSUME)
p["units"] += [
    K("h_mem::mem_cuckoo_alloc", "quick", "cuckoo table: blocks*64 in [slots*l, slots*l+64)"),
    K("h_mem::mem_qf_alloc", "quick", "QF remainder table: blocks*64 in [slots*r, slots*r+64)"),
    K("h_mem::mem_other_sizes", "quick", "Bloom words, CMS counters, HLL registers match the configuration"),
]
